// Harness for property C17 (engine K, DESIGN.md §4 and §6 C17): files are
// published atomically - old content or new content, never a fragment.
//
// For every scenario (operation x destination state x new content x temp
// location) the real portbase operation is run once in a driver process under
// strace (trace run). Every file-system-mutating system call that the
// operation's thread issues between the two markers is a fault point. For
// every fault point the scenario is re-run from the same initial state and
//   - the process is killed immediately before that call (crash run), or
//   - that call fails with EIO (failure run),
//
// then the directory tree is inspected. The trace itself is checked for the
// ordering obligations (fsync before the publishing rename, no write access
// to the destination).
package main

import (
	"bufio"
	"bytes"
	"encoding/json"
	"fmt"
	"io"
	"net"
	"net/http"
	"net/http/httptest"
	"os"
	"os/exec"
	"path/filepath"
	"regexp"
	"runtime"
	"sort"
	"strconv"
	"strings"
	"sync"
	"sync/atomic"
	"syscall"

	"github.com/safing/jess"
	"github.com/safing/jess/filesig"
	"github.com/safing/jess/lhash"
	"github.com/safing/jess/tools"
	"github.com/safing/portbase/database/query"
	"github.com/safing/portbase/database/storage/fstree"
	"github.com/safing/portbase/updater"

	"verif/vlib"
)

func init() {
	if len(os.Args) > 1 && os.Args[1] == "-c17-driver" {
		// the operation's system calls must come from one kernel thread
		runtime.LockOSThread()
	}
}

func main() {
	if len(os.Args) > 2 && os.Args[1] == "-c17-driver" {
		os.Exit(driverMain(os.Args[2]))
	}
	vlib.Main("C17", "fault_enumeration", run)
}

// Fault is what is done to one run.
type Fault struct {
	Kind string `json:"kind"` // none | kill | error
	Name string `json:"syscall,omitempty"`
	K    int    `json:"k,omitempty"` // k-th call of that name by the operation's thread after the begin marker
}

func (f Fault) String() string {
	if f.Kind == "none" {
		return "complete"
	}
	if f.Kind == "stop" || f.Kind == "delay" {
		if f.K == 0 {
			return f.Kind + "-after:begin-marker"
		}
		return fmt.Sprintf("%s-after:%s:%d", f.Kind, f.Name, f.K)
	}
	return fmt.Sprintf("%s-before:%s:%d", f.Kind, f.Name, f.K)
}

// Witness identifies one case for --replay.
type Witness struct {
	Scenario Scenario `json:"scenario"`
	Fault    Fault    `json:"fault"`
	Call     string   `json:"call,omitempty"`
	Note     string   `json:"note,omitempty"`
}

type env struct {
	c        *vlib.Ctx
	self     string
	master   string // scratch directory on the default temp file system
	other    string // scratch directory on another mount point ("" if none)
	url      string
	rawURL   string
	signet   string
	traceArg string
	seq      int64
	pmu      sync.Mutex
	pending  []pendingViolation
	// probeNotes: examples of fstree queries that fail after a fault (informational)
	probeNotes []string
}

// RunResult is one driver run.
type RunResult struct {
	Spec    *Spec
	Expect  *Expect
	Before  map[string]*Entry
	After   map[string]*Entry
	Calls   []*Call
	Op      *OpTrace
	Out     string
	Killed  bool
	Exit    int
	Result  string // "ok", "err ...", "" (no RESULT line)
	LogTail string
	dirs    []string
	files   []string
}

func (r *RunResult) cleanup() {
	for _, d := range r.dirs {
		_ = os.RemoveAll(d)
	}
	for _, f := range r.files {
		_ = os.Remove(f)
	}
}

func (e *env) runOnce(sc Scenario, f Fault, when int) (res *RunResult, err error) {
	n := atomic.AddInt64(&e.seq, 1)
	root := filepath.Join(e.master, fmt.Sprintf("r%d", n))
	if err := os.Mkdir(root, 0o755); err != nil {
		return nil, err
	}
	res = &RunResult{dirs: []string{root}}
	sp := &Spec{Sc: sc, Root: root, URL: e.url, RawURL: e.rawURL, Signet: e.signet}
	if sc.overlap() != "" {
		sp.Writer = "A"
	}
	if sc.Tmp == "other" || sc.Tmp == "explicit-other" {
		sp.Other = filepath.Join(e.other, fmt.Sprintf("o%d", n))
		if err := os.Mkdir(sp.Other, 0o755); err != nil {
			return res, err
		}
		res.dirs = append(res.dirs, sp.Other)
	}
	res.Spec = sp
	if pv, _ := vlib.Catch(func() { res.Expect = prepare(sp) }); pv != nil {
		return res, fmt.Errorf("prepare: %v", pv)
	}
	if res.Before, err = snapshot(sp.Root, sp.Other); err != nil {
		return res, err
	}
	specFile := filepath.Join(e.master, fmt.Sprintf("spec%d.json", n))
	logFile := filepath.Join(e.master, fmt.Sprintf("trace%d.log", n))
	res.files = []string{specFile, logFile}
	b, _ := json.Marshal(sp)
	if err := os.WriteFile(specFile, b, 0o644); err != nil {
		return res, err
	}
	args := []string{"-f", "-s", "0", "-o", logFile, "-e", "trace=" + e.traceArg}
	switch f.Kind {
	case "kill":
		args = append(args, "-e", fmt.Sprintf("inject=%s:signal=SIGKILL:when=%d", f.Name, when))
	case "error":
		args = append(args, "-e", fmt.Sprintf("inject=%s:error=EIO:when=%d", f.Name, when))
	}
	args = append(args, e.self, "-c17-driver", specFile)
	cmd := exec.Command("strace", args...)
	cmd.Dir = root
	l := layout(sp)
	cmd.Env = append(os.Environ(), "TMPDIR="+l.SysTmp, "GOMAXPROCS=1", "GODEBUG=asyncpreemptoff=1")
	var out bytes.Buffer
	cmd.Stdout, cmd.Stderr = &out, &out
	runErr := cmd.Run()
	res.Out = out.String()
	if ee, ok := runErr.(*exec.ExitError); ok {
		if ws, ok := ee.Sys().(syscall.WaitStatus); ok && ws.Signaled() && ws.Signal() == syscall.SIGKILL {
			res.Killed = true
		}
		res.Exit = ee.ExitCode()
	} else if runErr != nil {
		return res, fmt.Errorf("strace: %v", runErr)
	}
	for _, line := range strings.Split(res.Out, "\n") {
		if strings.HasPrefix(line, "RESULT ") {
			res.Result = strings.TrimPrefix(line, "RESULT ")
		}
	}
	if res.After, err = snapshot(sp.Root, sp.Other); err != nil {
		return res, err
	}
	if res.Calls, err = parseStrace(logFile); err != nil {
		return res, err
	}
	res.Op = analyse(res.Calls, root)
	if raw, err := os.ReadFile(logFile); err == nil {
		lines := strings.Split(strings.TrimSpace(string(raw)), "\n")
		if len(lines) > 12 {
			lines = lines[len(lines)-12:]
		}
		res.LogTail = strings.Join(lines, "\n")
	}
	return res, nil
}

func sideOutputs(sc Scenario, ex *Expect) []string {
	if sc.Op == opFetch && sc.has("signed") {
		return []string{ex.Dest + filesig.Extension}
	}
	return nil
}

func site(sc Scenario) string {
	s := sc.Op
	if m := sc.srvMode(); strings.HasPrefix(m, "st-") {
		s += "/server-answer"
	} else if m != "" {
		s += "/interrupted-download"
	}
	if sc.damage() != "" {
		s += "/damaged-archive"
	}
	if sc.overlap() != "" {
		s += "/overlapping-writers"
	}
	if sc.concurrent() {
		s += "/concurrent-calls"
	}
	if sc.has("signed") {
		s += "(signed)"
	}
	return s
}

// FaultPoint is one enumerated (scenario, fault) pair.
type FaultPoint struct {
	Sc    Scenario
	Fault Fault
	When  int
	Norm  string // normalised call of the trace run
}

type scenarioResult struct {
	sc     Scenario
	points []FaultPoint
	// beginWhen: the begin marker is the beginWhen-th faccessat of the operation's thread
	beginWhen int
	classes   map[string]bool
	mu        sync.Mutex
}

func roots(sp *Spec) []string { return []string{sp.Root, sp.Other} }

var longDigitsRe = regexp.MustCompile(`\d{8,}`)

type pendingViolation struct {
	key                        string
	clause, site, disc, detail string
	w                          Witness
}

// report queues the problems of one run; flush reports them in a fixed order
// so that the witness printed for a signature does not depend on scheduling.
func (e *env) report(sc Scenario, f Fault, call string, v *Verdict, extra []Problem, r *RunResult) {
	probs := append([]Problem{}, extra...)
	if v != nil {
		probs = append(probs, v.Problems...)
	}
	for _, p := range probs {
		det := fmt.Sprintf("scenario %s, %s", sc.Name(), f)
		if call != "" {
			det += " [" + call + "]"
		}
		det += "\n" + p.Detail
		if r != nil && r.Result != "" {
			det += "\noperation result: " + r.Result
		}
		if r != nil && r.Spec != nil {
			det = strings.ReplaceAll(det, r.Spec.Root, "$R")
			if r.Spec.Other != "" {
				det = strings.ReplaceAll(det, r.Spec.Other, "$O")
			}
		}
		det = longDigitsRe.ReplaceAllString(det, "#")
		kind := map[string]int{"none": 0, "kill": 1, "error": 2, "stop": 3, "delay": 4}[f.Kind]
		e.pmu.Lock()
		e.pending = append(e.pending, pendingViolation{
			key:    fmt.Sprintf("%s|%d|%s|%06d", sc.Name(), kind, f.Name, f.K),
			clause: p.Clause, site: site(sc), disc: p.Disc, detail: det, w: Witness{Scenario: sc, Fault: f, Call: call},
		})
		e.pmu.Unlock()
	}
}

func (e *env) flush() {
	e.pmu.Lock()
	defer e.pmu.Unlock()
	sort.SliceStable(e.pending, func(i, j int) bool { return e.pending[i].key < e.pending[j].key })
	for _, p := range e.pending {
		e.c.Violate(p.clause, p.site, p.disc, p.detail, p.w)
	}
	e.pending = nil
}

// traceScenario does the trace run of a scenario: complete-run oracle, trace
// obligations, and the list of fault points.
func (e *env) traceScenario(sc Scenario, verbose bool) (*scenarioResult, *RunResult) {
	c := e.c
	sr := &scenarioResult{sc: sc, classes: map[string]bool{}}
	r, err := e.runOnce(sc, Fault{Kind: "none"}, 0)
	if r != nil && !verbose {
		defer r.cleanup()
	}
	if err != nil {
		c.EngineError("trace run of %s: %v", sc.Name(), err)
		return nil, r
	}
	if !r.Op.Begun || !r.Op.Ended || r.Result == "" {
		c.EngineError("trace run of %s did not complete (begun=%v ended=%v exit=%d)\n%s\n%s", sc.Name(), r.Op.Begun, r.Op.Ended, r.Exit, r.Out, r.LogTail)
		return nil, r
	}
	opOK := r.Result == "ok"
	if !opOK && !sc.mayFail() {
		c.EngineError("trace run of %s: the operation failed without any fault: %s", sc.Name(), r.Result)
		return nil, r
	}
	v := evaluate(r.Before, r.After, r.Expect, sideOutputs(sc, r.Expect))
	var extra []Problem
	if opOK && v.Dest == "old" { // returned success but the destination does not show the new content
		extra = append(extra, Problem{"dest-old-or-new", "success-without-new-content", "the operation returned nil but the destination still shows the previous state"})
	}
	extra = append(extra, traceObligations(r.Op, r.Expect, opOK)...)
	e.report(sc, Fault{Kind: "none"}, "", v, extra, r)
	c.Add(0, int64(len(r.Op.Calls)), 1)
	cls := "complete:" + v.class()
	if sc.mayFail() {
		// the server misbehaves / the archive is damaged: the operation may fail, the oracle is evaluated after it returned
		family, m := "interrupted-download", sc.srvMode()
		if strings.HasPrefix(m, "st-") {
			family = "server-answer"
		}
		if m == "" {
			family, m = "damaged-archive", sc.damage()
		}
		if m == "" {
			family, m = "temp-dir-on-other-mount", sc.Tmp
		}
		if opOK {
			cls += "/op-ok"
		} else {
			cls += "/op-error"
		}
		c.Nontrivial(sc.Name() + "|complete")
		c.Outcome(family + ":" + m + ":" + v.class() + cls[strings.LastIndex(cls, "/"):])
		if sc.New == "small" && !sc.has("signed") && (sc.Old == "small" || sc.damage() != "") {
			c.Sample(map[string]any{"scenario": sc.Name(), "fault": family + " " + m, "observed": v.State, "verdict": cls, "result": longDigitsRe.ReplaceAllString(strings.ReplaceAll(r.Result, r.Spec.Root, "$R"), "#")})
		}
	}
	c.Outcome(cls)
	sr.classes[v.Dest] = true
	sr.beginWhen = r.Op.Before["faccessat"] + 1
	perName := map[string]int{}
	for _, call := range r.Op.Calls {
		perName[call.Name]++
		if !mutating(call, roots(r.Spec)) {
			continue
		}
		sr.points = append(sr.points, FaultPoint{Sc: sc, Fault: Fault{Kind: "kill", Name: call.Name, K: perName[call.Name]},
			When: r.Op.Before[call.Name] + perName[call.Name], Norm: normalise(call, r.Spec)})
	}
	return sr, r
}

// runPoint runs one fault point (with retries for runs that hit another call)
// and evaluates it. Returns the verdict class ("" when the point was not evaluated).
func (e *env) runPoint(fp FaultPoint, verbose bool) string {
	c := e.c
	sc := fp.Sc
	if fp.Fault.Kind == "stop" {
		return e.runOverlapPoint(fp, verbose)
	}
	if fp.Fault.Kind == "delay" {
		return e.runConcurrentPoint(fp, verbose)
	}
	var lastWhy string
	for attempt := 0; attempt < 3; attempt++ {
		r, err := e.runOnce(sc, fp.Fault, fp.When)
		if err != nil {
			if r != nil {
				r.cleanup()
			}
			c.EngineError("%s %s: %v", sc.Name(), fp.Fault, err)
			return ""
		}
		why := validate(fp, r)
		if why != "" {
			lastWhy = why + "\n" + r.Out + "\n" + r.LogTail
			r.cleanup()
			c.ExtraAdd("runs_discarded_by_validation", 1)
			if os.Getenv("C17_VERBOSE") != "" {
				fmt.Printf("  DISCARD %s %s: %s\n%s\n", sc.Name(), fp.Fault, why, lastWhy)
			}
			continue
		}
		v := evaluate(r.Before, r.After, r.Expect, sideOutputs(sc, r.Expect))
		var extra []Problem
		if fp.Fault.Kind == "error" {
			if r.Result == "ok" && v.Dest == "old" {
				extra = append(extra, Problem{"dest-old-or-new", "success-without-new-content", "the operation returned nil but the destination still shows the previous state"})
			}
		}
		e.report(sc, fp.Fault, fp.Norm, v, extra, r)
		e.fstreeProbe(sc, fp, r, v)
		cls := v.class()
		if fp.Fault.Kind == "error" {
			if strings.HasPrefix(r.Result, "err") {
				cls += "/op-error"
			} else {
				cls += "/op-ok"
			}
		}
		c.Add(0, 0, 1)
		c.Outcome(fp.Fault.Kind + ":" + cls)
		c.Nontrivial(sc.Name() + "|" + fp.Fault.String())
		if verbose {
			fmt.Printf("  %-28s %-70s -> %s   (%s)\n", fp.Fault, fp.Norm, cls, r.Result)
		}
		if isSample(sc, fp) {
			c.Sample(map[string]any{"scenario": sc.Name(), "fault": fp.Fault.String(), "call": fp.Norm, "observed": v.State, "verdict": cls})
		}
		r.cleanup()
		return cls + "|" + v.State
	}
	c.EngineError("%s %s: three runs in a row did not hit the intended call: %s", sc.Name(), fp.Fault, lastWhy)
	return ""
}

func isSample(sc Scenario, fp FaultPoint) bool {
	if fp.Fault.Kind != "kill" {
		return sc.Op == opCreate && sc.Old == "small" && sc.New == "small" && sc.Tmp == "same" && sc.Var == "" && (fp.Fault.Name == "fsync" || strings.HasPrefix(fp.Fault.Name, "rename"))
	}
	switch {
	case sc.Op == opWriteFile && sc.Old == "small" && sc.New == "small" && sc.Tmp == "same":
		return fp.Fault.Name == "write" || fp.Fault.Name == "fsync" || fp.Fault.Name == "renameat"
	case sc.Op == opFetch && sc.Old == "absent" && sc.New == "small" && sc.Var == "signed":
		return fp.Fault.Name == "renameat" || fp.Fault.Name == "fchmodat"
	case sc.Op == opUnpackZip && sc.Old == "absent" && sc.New == "small":
		return fp.Fault.Name == "renameat"
	case sc.Op == opSymlink && sc.Old == "symlink":
		return fp.Fault.Name == "renameat"
	}
	return false
}

// validate checks that the fault hit exactly the intended call ("" = valid).
func validate(fp FaultPoint, r *RunResult) string {
	op := r.Op
	if !op.Begun {
		return "begin marker not reached"
	}
	count := 0
	var target *Call
	for _, call := range op.Calls {
		if call.Name == fp.Fault.Name {
			count++
			if count == fp.Fault.K {
				target = call
			}
		}
	}
	switch fp.Fault.Kind {
	case "kill":
		if !r.Killed {
			if op.Ended {
				return "not-reached"
			}
			return fmt.Sprintf("process was not killed (exit %d)", r.Exit)
		}
		if op.Ended {
			return "killed after the end marker"
		}
		if len(op.Calls) == 0 {
			return "killed before the first call of the operation"
		}
		last := op.Calls[len(op.Calls)-1]
		if !last.Killed || last.Name != fp.Fault.Name || count != fp.Fault.K || last != target {
			return fmt.Sprintf("killed at another call: last call of the operation's thread is %s (#%d of that name, killed=%v)", last.Name, count, last.Killed)
		}
		// no other thread may have been the one that was hit
		// (strace sometimes echoes the killed call as an unfinished call of another
		// thread; that thread can only have been the injection target if this was
		// its when-th call of that name; an echo has the same arguments)
		perPid := map[int]int{}
		for _, call := range r.Calls {
			if call.Name != fp.Fault.Name {
				continue
			}
			perPid[call.Pid]++
			if call.Killed && call != last && call.Pid != op.Tid && perPid[call.Pid] == fp.When && strings.Join(call.Args, ",") != strings.Join(last.Args, ",") {
				return "the killed call may belong to another thread"
			}
		}
	case "error":
		if r.Killed || r.Result == "" || !op.Ended {
			return fmt.Sprintf("run did not complete (exit %d)", r.Exit)
		}
		if target == nil {
			return "not-reached"
		}
		if !target.Inj {
			return "the intended call was not the one that failed"
		}
		for _, call := range r.Calls {
			if call.Inj && call != target {
				return "another call got the injected failure"
			}
		}
	}
	if got := normalise(target, r.Spec); got != fp.Norm {
		return fmt.Sprintf("the call differs from the trace run: %s vs %s", got, fp.Norm)
	}
	return ""
}

// srvModes are the behaviours of the raw download server: the response is
// complete or cut, delimited by connection close (HTTP/1.0, no Content-Length),
// by Content-Length or by chunked encoding.
var srvModes = []string{
	"close-full", "close-cut-0", "close-cut-1", "close-cut-half", "close-cut-allbut1",
	"cl-cut-0", "cl-cut-1", "cl-cut-half", "cl-cut-allbut1",
	"chunked-full", "chunked-cut-midchunk", "chunked-cut-boundary",
	// server answers other than "200 with the resource": complete bodies under another
	// status or behind a redirect, empty answers, an unsolicited partial answer, error pages
	"st-200-full", "st-203-full", "st-204", "st-205", "st-206-half", "st-206-full",
	"st-301", "st-302", "st-304", "st-404", "st-500", "st-503",
}

// wantPoints: are the fault points of this scenario enumerated as well? The
// interrupted-download scenarios are decided by their complete run; quick
// combines only three of them with crash points.
func (e *env) wantPoints(sc Scenario) bool {
	if e.c.Quick() && sc.word("gzm=") != "" && sc.New == "large" {
		return false // 5 MiB unpacked in 32 KiB writes: complete run only in quick
	}
	if !sc.mayFail() || !e.c.Quick() || sc.Tmp == "explicit-other" {
		return true
	}
	if sc.New != "small" || sc.has("signed") {
		return false
	}
	switch sc.srvMode() + sc.damage() {
	case "close-cut-half", "cl-cut-half", "chunked-cut-midchunk", "st-206-half":
		return sc.Old == "small"
	case "deflate-cut-half", "stored-cut-half", "gz-cut-half":
		return true
	}
	return false
}

func buildScenarios(c *vlib.Ctx, haveOther bool) []Scenario {
	q := c.Quick()
	var out []Scenario
	add := func(op, old, nw, tmp, v string) {
		if (tmp == "other" || tmp == "explicit-other") && !haveOther {
			return
		}
		out = append(out, Scenario{op, old, nw, tmp, v})
	}
	olds := []string{"absent", "empty", "small", "mode"}
	news := []string{"empty", "small", "large"}

	// renameio.WriteFile
	for _, o := range olds {
		for _, n := range news {
			add(opWriteFile, o, n, "same", "")
			for _, t := range []string{"other", "missing"} {
				if !q || (n == "small" && (o == "absent" || o == "small")) {
					add(opWriteFile, o, n, t, "")
				}
			}
		}
	}
	// destination present and write-protected (0444, 0400, 0555): replaced like any other file
	for _, op := range []string{opWriteFile, opCreate, opCopy, opReplace} {
		for _, o := range []string{"readonly", "ro0400", "ro0555"} {
			if q && o != "readonly" && op != opWriteFile && op != opReplace {
				continue
			}
			add(op, o, "small", "same", "")
			if !q {
				add(op, o, "large", "same", "")
				add(op, o, "empty", "other", "")
				if op != opWriteFile { // renameio.WriteFile has no temp-dir option: its temporary location is always $TMPDIR or the destination directory
					add(op, o, "small", "explicit", "")
				}
			}
		}
	}
	add(opPut, "readonly", "small", "same", "k")
	add(opFetch, "readonly", "small", "registry", "")
	if !q {
		add(opPut, "readonly", "large", "other", "k")
		add(opPut, "ro0400", "small", "same", "k")
		add(opFetch, "readonly", "small", "registry", "signed")
		add(opFetch, "ro0555", "large", "registry", "")
	}
	// renameio.Symlink
	for _, o := range []string{"absent", "symlink", "file"} {
		add(opSymlink, o, "small", "same", "")
	}
	// utils.CreateAtomic / CopyFileAtomic / ReplaceFileAtomic
	for _, op := range []string{opCreate, opCopy, opReplace} {
		for _, o := range olds {
			for _, n := range news {
				add(op, o, n, "same", "")
				if !q || (n == "small" && (o == "absent" || o == "mode")) {
					add(op, o, n, "explicit", "")
					add(op, o, n, "other", "")
					add(op, o, n, "same", "mode0640")
				}
			}
		}
	}
	// explicitly configured temp dir on another file system: the rename cannot work (EXDEV)
	for _, op := range []string{opCreate, opCopy, opReplace} {
		for _, o := range []string{"small", "absent", "mode"} {
			for _, n := range []string{"small", "large"} {
				if q && (o == "mode" || (n == "large" && (o == "absent" || op != opCreate))) {
					continue
				}
				add(op, o, n, "explicit-other", "")
			}
		}
	}
	// fstree
	for _, n := range []string{"small", "large"} {
		for _, t := range []string{"same", "other"} {
			if q && t == "other" && n == "large" {
				continue
			}
			for _, o := range olds {
				add(opPut, o, n, t, "k")
			}
			add(opPut, "absent", n, t, "newdir1")
			add(opPut, "absent", n, t, "newdir2")
		}
	}
	add(opDelete, "small", "empty", "same", "k")
	// updater.fetchFile
	big := vlib.Pick(c, "medium", "large")
	for _, v := range []string{"", "signed"} {
		for _, n := range []string{"empty", "small", big} {
			for _, o := range []string{"absent", "small", "mode"} {
				if q && n == big && o == "mode" {
					continue
				}
				add(opFetch, o, n, "registry", v)
			}
			if n != big {
				nv := "nodir"
				if v != "" {
					nv = v + ",nodir"
				}
				add(opFetch, "absent", n, "registry", nv)
			}
		}
	}
	// updater.fetchFile with a server that sends complete or cut responses in every framing
	for _, m := range srvModes {
		for _, v := range []string{"", "signed"} {
			for _, o := range []string{"absent", "small"} {
				w := "srv=" + m
				if v != "" {
					w = v + "," + w
				}
				add(opFetch, o, "small", "registry", w)
				if !q || strings.Contains(m, "half") || strings.Contains(m, "mid") || strings.Contains(m, "boundary") {
					add(opFetch, o, "medium", "registry", w)
				}
			}
		}
	}
	// damaged archives: intact directory, data of the first entry ends early; truncated gzip
	for _, n := range []string{"small", "medium"} {
		for _, kind := range []string{"deflate", "stored"} {
			for _, cut := range []string{"0", "1", "half", "allbut1"} {
				add(opUnpackZip, "absent", n, "registry", "dmg="+kind+"-cut-"+cut)
			}
		}
		for _, cut := range []string{"0", "5", "half", "allbut8", "allbut1"} {
			add(opUnpackFile, "absent", n, "registry", "dmg=gz-cut-"+cut)
		}
	}
	// overlapping writers: writer A is stopped after each of its mutating calls, writer B runs in between
	for _, ov := range []string{"same", "other"} {
		for _, n := range []string{"small", "medium"} {
			for _, o := range []string{"small", "absent"} {
				if q && o == "absent" && n == "medium" {
					continue
				}
				add(opWriteFile, o, n, "same", "overlap="+ov)
				add(opCreate, o, n, "same", "overlap="+ov)
				add(opCreate, o, n, "explicit", "overlap="+ov)
				add(opPut, o, n, "same", "overlap="+ov)
				if !q {
					add(opWriteFile, o, n, "missing", "overlap="+ov)
				}
			}
		}
	}
	// multi-member gzip resources (cat a.gz b.gz ...): the new content is all members concatenated
	for _, m := range []string{"gzm=2", "gzm=3"} {
		add(opUnpackFile, "absent", "small", "registry", m)
		if m == "gzm=2" || !q {
			add(opUnpackFile, "absent", "large", "registry", m)
		}
	}
	// two overlapping UnpackArchive calls on the same resource in one process
	add(opUnpackZip, "absent", "small", "registry", "concurrent")
	add(opUnpackZip, "absent", "medium", "registry", "concurrent")
	// updater unpacking
	for _, n := range []string{"small", big} {
		add(opUnpackZip, "absent", n, "registry", "")
	}
	add(opUnpackZip, "present", "small", "registry", "")
	for _, n := range []string{"empty", "small", big} {
		add(opUnpackFile, "absent", n, "registry", "")
	}
	return out
}

func run(c *vlib.Ctx) {
	c.Rule("one case = one run of a real portbase operation in a fresh directory tree with one fault: killed immediately before the k-th call of one system-call name (crash run), that call failing with EIO (failure run), or no fault (complete run); distinct_nontrivial = distinct (scenario, fault kind, system call, k) whose resulting directory tree was inspected after the run was validated against the scenario's trace; destination states: absent, empty, small, present with another mode (0640), present write-protected (0444, 0400, 0555); for symlinks absent / symlink / regular file")
	c.Assume("crashes are process kills (strace SIGKILL injection before the call takes effect): data written but not yet synced survives; durability is decided on the system-call trace (fsync of the temp file after its last write and before the rename), not by losing data")
	c.Assume("concurrent readers: every state between two system calls of the operation is one of the inspected crash states (the snapshot reads the destination like any reader), and the trace oracle shows that the destination inode is never opened for writing, written or truncated, so a reader holding the old file also never sees a fragment; reader interleavings are therefore not enumerated separately")
	c.Assume("'new content' is compared by bytes / link target / directory tree; the mode of a destination that already shows the new content is not asserted (fetchFile sets 0755 after the rename); 'previous state' includes the mode")
	c.Assume("parent directories of the destination created by the operation (fstree.Put into a new directory, updater storage sub-directory) are not counted as stray files; mode changes of directories are not asserted")
	c.Assume("a temporary entry is one named .<destination base name><random> directly inside the destination's directory, $TMPDIR or the configured temp dir (or anything below such an entry), or anything below the updater registry's tmp directory")
	c.Assume("overlapping writers (var overlap=same|other): bound = two writer processes, writer B runs completely between two system calls of writer A; A is stopped by strace (SIGSTOP injected at the call, the stop takes effect when the call has returned) after the begin marker and after each of its file-system-mutating calls in turn, B runs, A is continued; interleavings in which B is itself interrupted by A, or with three writers, are not enumerated; the oracle is evaluated when B finished and when both finished")
	c.Assume("concurrent calls (var concurrent): two UnpackArchive calls on the same resource in ONE process (they share the resource lock; two processes would not, and on the unchanged code two processes on one storage dir do destroy each other's result: the failing call removes the destination the other one published - outside the statement, which relies on the in-process lock); call A's thread is held by strace (delay_exit) after the begin marker and after each of its mutating calls in turn and call B is released at that moment; bound: two calls, B released at one point of A; whether B ran inside the delay window or waited for A is recorded in the outcome class")
	c.Assume("interrupted downloads (var srv=...) and damaged archives (var dmg=...) are decided after the operation returned: an error with the previous state kept satisfies the property; for a damaged archive the complete new tree cannot exist, so anything published is a fragment")
	c.Assume("index files written by updater.downloadIndex use os.WriteFile and are not claimed by the property; not exercised")

	if _, err := exec.LookPath("strace"); err != nil {
		c.EngineError("strace not found: %v", err)
		return
	}
	self, err := os.Executable()
	if err != nil {
		c.EngineError("%v", err)
		return
	}
	e := &env{c: c, self: self}
	if e.master, err = os.MkdirTemp("", "verif-c17-"); err != nil {
		c.EngineError("%v", err)
		return
	}
	defer os.RemoveAll(e.master)
	// a directory on another mount point than the scratch directory
	if st, err := os.Stat("/dev/shm"); err == nil && st.IsDir() {
		var a, b syscall.Stat_t
		if syscall.Stat("/dev/shm", &a) == nil && syscall.Stat(e.master, &b) == nil && a.Dev != b.Dev {
			if d, err := os.MkdirTemp("/dev/shm", "verif-c17-"); err == nil {
				e.other = d
				defer os.RemoveAll(d)
			}
		}
	}
	if e.other == "" {
		c.Assume("no second mount point available: tmp=other scenarios (TMPDIR on another file system) were skipped")
	}
	var names []string
	for _, n := range append(append([]string{}, mutatingNames...), extraNames...) {
		names = append(names, "?"+n)
	}
	e.traceArg = strings.Join(names, ",")

	srv, files, signet, err := startServer()
	if err != nil {
		c.EngineError("server: %v", err)
		return
	}
	defer srv.Close()
	e.url, e.signet = srv.URL, signet
	rawURL, stopRaw, err := startRawServer(files)
	if err != nil {
		c.EngineError("raw server: %v", err)
		return
	}
	defer stopRaw()
	e.rawURL = rawURL

	defer e.flush()
	if c.Replay != "" {
		e.replay()
		return
	}

	scs := buildScenarios(c, e.other != "")
	if only := os.Getenv("C17_ONLY"); only != "" { // development aid
		var f []Scenario
		for _, sc := range scs {
			if strings.Contains(sc.Name(), only) {
				f = append(f, sc)
			}
		}
		scs = f
	}
	withErrors := os.Getenv("C17_NO_ERROR_FAULTS") == ""

	// stage 1: trace runs
	results := make([]*scenarioResult, len(scs))
	c.ParallelFor(len(scs), func(i int) {
		if c.Expired() {
			return
		}
		results[i], _ = e.traceScenario(scs[i], false)
	})
	var points []FaultPoint
	owner := []int{}
	for i, sr := range results {
		if sr == nil {
			continue
		}
		c.Scenario(sr.sc.Name())
		if sr.sc.overlap() != "" || sr.sc.concurrent() {
			// stop / delay points: after the begin marker (B runs before A's first call) and after every mutating call of A
			kind := "stop"
			if sr.sc.concurrent() {
				kind = "delay"
			}
			points = append(points, FaultPoint{Sc: sr.sc, Fault: Fault{Kind: kind, Name: "faccessat", K: 0}, When: sr.beginWhen, Norm: "begin-marker"})
			owner = append(owner, i)
			for _, p := range sr.points {
				p.Fault.Kind = kind
				points = append(points, p)
				owner = append(owner, i)
			}
			continue
		}
		if !e.wantPoints(sr.sc) {
			continue
		}
		for _, p := range sr.points {
			points = append(points, p)
			owner = append(owner, i)
			if withErrors {
				pe := p
				pe.Fault.Kind = "error"
				points = append(points, pe)
				owner = append(owner, i)
			}
		}
	}
	// stage 2: fault runs
	states := map[string]bool{}
	var mu sync.Mutex
	c.ParallelFor(len(points), func(i int) {
		if c.Expired() {
			return
		}
		cls := e.runPoint(points[i], os.Getenv("C17_VERBOSE") != "")
		if cls == "" {
			return
		}
		sr := results[owner[i]]
		sr.mu.Lock()
		sr.classes[strings.SplitN(strings.TrimPrefix(cls, "dest="), "+", 2)[0]] = true
		sr.mu.Unlock()
		mu.Lock()
		states[sr.sc.Name()+"|"+cls] = true
		mu.Unlock()
	})
	c.Add(int64(len(states)), 0, 0)
	// drop the per-state helper keys again (they were only used for counting)
	sort.Strings(e.probeNotes)
	if len(e.probeNotes) > 6 {
		e.probeNotes = e.probeNotes[:6]
	}
	c.Extra("fstree_query_after_fault_examples", e.probeNotes)
	c.Extra("fault_points", len(points))
	c.Extra("scenarios_run", len(scs))
	// vacuity: a publishing scenario must have shown both the old and the new state
	vac := 0
	for _, sr := range results {
		if sr == nil || len(sr.points) == 0 || sr.sc.mayFail() || sr.sc.overlap() != "" || sr.sc.concurrent() {
			continue
		}
		old, nw := false, false
		for k := range sr.classes {
			if strings.HasPrefix(k, "old") {
				old = true
			}
			if strings.HasPrefix(k, "new") || k == "old=new" {
				nw = true
			}
		}
		if !old || !nw {
			vac++
		}
	}
	c.Extra("scenarios_without_both_old_and_new_state", vac)
}

// replay re-runs one witness verbosely.
func (e *env) replay() {
	c := e.c
	var w Witness
	if _, err := c.LoadReplay(&w); err != nil {
		c.EngineError("replay: %v", err)
		return
	}
	fmt.Printf("replay: scenario %s, %s\n", w.Scenario.Name(), w.Fault)
	sr, r := e.traceScenario(w.Scenario, true)
	if r != nil {
		defer r.cleanup()
	}
	if sr == nil {
		return
	}
	fmt.Printf("trace run: %d calls of the operation's thread between the markers, result %q\n", len(r.Op.Calls), r.Result)
	for _, call := range r.Op.Calls {
		m := " "
		if mutating(call, roots(r.Spec)) {
			m = "*"
		}
		fmt.Printf("  %s %-90s = %s\n", m, normalise(call, r.Spec), call.Ret)
	}
	if w.Fault.Kind == "none" || w.Fault.Kind == "" {
		return
	}
	if (w.Fault.Kind == "stop" || w.Fault.Kind == "delay") && w.Fault.K == 0 {
		fmt.Println("overlap run:")
		e.runPoint(FaultPoint{Sc: w.Scenario, Fault: w.Fault, When: sr.beginWhen, Norm: "begin-marker"}, true)
		return
	}
	for _, p := range sr.points {
		if p.Fault.Name == w.Fault.Name && p.Fault.K == w.Fault.K {
			p.Fault.Kind = w.Fault.Kind
			fmt.Println("fault run:")
			e.runPoint(p, true)
			return
		}
	}
	fmt.Println("the fault point of the witness does not exist any more in the trace of this scenario (the code changed)")
}

// startServer serves the resources of the fetch scenarios and their signature files.
func startServer() (*httptest.Server, map[string][]byte, string, error) {
	files := map[string][]byte{}
	// signing key
	tool, err := tools.Get("Ed25519")
	if err != nil {
		return nil, nil, "", err
	}
	ts := jess.NewMemTrustStore()
	sig := jess.NewSignetBase(tool)
	sig.ID = "c17-signing-key"
	if err := tool.StaticLogic.GenerateKey(sig); err != nil {
		return nil, nil, "", err
	}
	if err := ts.StoreSignet(sig); err != nil {
		return nil, nil, "", err
	}
	rcpt, err := sig.AsRecipient()
	if err != nil {
		return nil, nil, "", err
	}
	if err := ts.StoreSignet(rcpt); err != nil {
		return nil, nil, "", err
	}
	rcpt58, err := rcpt.ToBase58()
	if err != nil {
		return nil, nil, "", err
	}
	for _, size := range []string{"empty", "small", "medium", "large"} {
		ident := "all/res-" + size + ".bin"
		vp := "/" + updater.GetVersionedPath(ident, updVersion)
		data := content("NEW", size)
		files[vp] = data
		env := jess.NewUnconfiguredEnvelope()
		env.SuiteID = jess.SuiteSignV1
		env.Senders = []*jess.Signet{sig}
		letter, _, err := filesig.SignFileData(lhash.BLAKE2b_256.Digest(data), map[string]string{"id": ident, "version": updVersion}, env, ts)
		if err != nil {
			return nil, nil, "", fmt.Errorf("sign: %w", err)
		}
		sf, err := filesig.AddToSigFile(letter, nil, false)
		if err != nil {
			return nil, nil, "", err
		}
		files[vp+filesig.Extension] = sf
	}
	srv := httptest.NewServer(http.HandlerFunc(func(w http.ResponseWriter, r *http.Request) {
		data, ok := files[r.URL.Path]
		if !ok {
			http.NotFound(w, r)
			return
		}
		w.Header().Set("Content-Type", "application/octet-stream")
		w.Header().Set("Content-Length", strconv.Itoa(len(data)))
		_, _ = w.Write(data)
	}))
	return srv, files, rcpt58, nil
}

// startRawServer is a TCP server that answers GET /mode/<mode>/<path> with the
// file of <path> in the framing and with the cut given by <mode> (see srvModes)
// and then closes the connection. Signature files are always served complete
// with Content-Length, so that signed scenarios reach the download of the resource.
func startRawServer(files map[string][]byte) (string, func(), error) {
	ln, err := net.Listen("tcp", "127.0.0.1:0")
	if err != nil {
		return "", nil, err
	}
	go func() {
		for {
			conn, err := ln.Accept()
			if err != nil {
				return
			}
			go serveRaw(conn, files)
		}
	}()
	return "http://" + ln.Addr().String(), func() { _ = ln.Close() }, nil
}

func cutAt(mode string, n int) int {
	switch {
	case strings.HasSuffix(mode, "-full"):
		return n
	case strings.HasSuffix(mode, "-cut-0"):
		return 0
	case strings.HasSuffix(mode, "-cut-1"):
		return 1
	case strings.HasSuffix(mode, "-cut-allbut1"):
		return n - 1
	}
	return n / 2 // -cut-half, -cut-midchunk, -cut-boundary
}

func serveRaw(conn net.Conn, files map[string][]byte) {
	defer conn.Close()
	br := bufio.NewReader(conn)
	reqLine, err := br.ReadString('\n')
	if err != nil {
		return
	}
	for { // headers
		l, err := br.ReadString('\n')
		if err != nil {
			return
		}
		if strings.TrimSpace(l) == "" {
			break
		}
	}
	f := strings.Fields(reqLine)
	if len(f) < 2 || !strings.HasPrefix(f[1], "/mode/") {
		_, _ = io.WriteString(conn, "HTTP/1.1 400 Bad Request\r\nContent-Length: 0\r\nConnection: close\r\n\r\n")
		return
	}
	rest := strings.TrimPrefix(f[1], "/mode/")
	i := strings.Index(rest, "/")
	if i < 0 {
		return
	}
	mode, path := rest[:i], rest[i:]
	data, ok := files[path]
	if !ok {
		_, _ = io.WriteString(conn, "HTTP/1.1 404 Not Found\r\nContent-Length: 0\r\nConnection: close\r\n\r\n")
		return
	}
	if strings.HasSuffix(path, filesig.Extension) {
		mode = "cl-full"
	}
	k := cutAt(mode, len(data))
	var out bytes.Buffer
	switch {
	case strings.HasPrefix(mode, "close-"):
		out.WriteString("HTTP/1.0 200 OK\r\nContent-Type: application/octet-stream\r\n\r\n")
		out.Write(data[:k])
	case strings.HasPrefix(mode, "cl-"):
		fmt.Fprintf(&out, "HTTP/1.1 200 OK\r\nContent-Type: application/octet-stream\r\nContent-Length: %d\r\nConnection: close\r\n\r\n", len(data))
		out.Write(data[:k])
	case mode == "chunked-full":
		fmt.Fprintf(&out, "HTTP/1.1 200 OK\r\nTransfer-Encoding: chunked\r\nConnection: close\r\n\r\n%x\r\n", len(data))
		out.Write(data)
		out.WriteString("\r\n0\r\n\r\n")
	case mode == "chunked-cut-midchunk": // one chunk announced with the full size, half of it sent
		fmt.Fprintf(&out, "HTTP/1.1 200 OK\r\nTransfer-Encoding: chunked\r\nConnection: close\r\n\r\n%x\r\n", len(data))
		out.Write(data[:k])
	case strings.HasPrefix(mode, "st-"):
		statusAnswer(&out, mode, path, data)
	case mode == "chunked-cut-boundary": // a complete first chunk with half of the data, then nothing
		fmt.Fprintf(&out, "HTTP/1.1 200 OK\r\nTransfer-Encoding: chunked\r\nConnection: close\r\n\r\n%x\r\n", k)
		out.Write(data[:k])
		out.WriteString("\r\n")
	default:
		return
	}
	_, _ = conn.Write(out.Bytes())
}

// statusAnswer writes a well-framed answer (Content-Length matches the body
// sent) with the status given by the mode st-<code>[-half|-full].
func statusAnswer(out *bytes.Buffer, mode, path string, data []byte) {
	f := strings.Split(mode, "-")
	code, _ := strconv.Atoi(f[1])
	head := func(extra string, n int) {
		fmt.Fprintf(out, "HTTP/1.1 %d %s\r\nContent-Type: application/octet-stream\r\n%sContent-Length: %d\r\nConnection: close\r\n\r\n", code, http.StatusText(code), extra, n)
	}
	switch code {
	case 200, 203:
		head("", len(data))
		out.Write(data)
	case 204, 205, 304: // no body
		head("", 0)
	case 206:
		part := data
		if len(f) > 2 && f[2] == "half" {
			part = data[:len(data)/2]
		}
		last := len(part) - 1
		if last < 0 {
			last = 0
		}
		head(fmt.Sprintf("Content-Range: bytes 0-%d/%d\r\n", last, len(data)), len(part))
		out.Write(part)
	case 301, 302: // redirect to the real content
		head("Location: /mode/st-200-full"+path+"\r\n", 0)
	default: // error page in place of the resource
		page := []byte(fmt.Sprintf("<html><body><h1>%d %s</h1></body></html>\n", code, http.StatusText(code)))
		head("", len(page))
		out.Write(page)
	}
}

// fstreeProbe: is the database still usable after the fault? A query over the
// whole database directory should return exactly the keys whose record file
// exists, without error. This is NOT part of the property's oracle (the
// statement is about the files); the result is recorded as an outcome only.
func (e *env) fstreeProbe(sc Scenario, fp FaultPoint, r *RunResult, v *Verdict) {
	if sc.Op != opPut || sc.overlap() != "" || sc.Old == "empty" {
		return
	}
	l := layout(r.Spec)
	db, err := fstree.NewFSTree("c17", l.Dst)
	if err != nil {
		e.c.Outcome("fstree-query-after-fault:cannot-open")
		return
	}
	q, err := query.New("c17:").Check()
	if err != nil {
		e.c.Outcome("fstree-query-after-fault:bad-query")
		return
	}
	it, err := db.Query(q, true, true)
	if err != nil {
		e.c.Outcome("fstree-query-after-fault:query-refused")
		return
	}
	var keys []string
	for rec := range it.Next {
		keys = append(keys, rec.DatabaseKey())
	}
	want := []string{}
	if r.After[l.Dest] != nil {
		want = append(want, l.Key)
	}
	where := "tmpdir-usable"
	if sc.Tmp == "other" || sc.Tmp == "missing" {
		where = "tmpdir-on-other-mount"
	}
	res := "ok"
	switch {
	case it.Err() != nil:
		res = "query-error"
	case strings.Join(keys, ",") != strings.Join(want, ","):
		res = "phantom-key"
	}
	e.c.Outcome("fstree-query-after-fault:" + fp.Fault.Kind + ":" + where + ":" + res)
	if res != "ok" {
		e.pmu.Lock()
		if len(e.probeNotes) < 4000 {
			errText := ""
			if it.Err() != nil {
				errText = longDigitsRe.ReplaceAllString(strings.ReplaceAll(it.Err().Error(), r.Spec.Root, "$R"), "#")
			}
			e.probeNotes = append(e.probeNotes, fmt.Sprintf("%s %s [%s]: keys=%v err=%s (%s)", sc.Name(), fp.Fault, fp.Norm, keys, errText, v.class()))
		}
		e.pmu.Unlock()
	}
}
