//go:build verif

package database

import (
	"fmt"
	"os"
	"strings"
	"sync"

	"github.com/safing/portbase/database/query"
	"github.com/safing/portbase/database/record"
	_ "github.com/safing/portbase/database/storage/hashmap" // storage backend
	"github.com/safing/portbase/zzverif/vsched"
)

// C14SParams: concurrent writers against Cancel of a subscription / hook.
type C14SParams struct {
	WriterA    int    // number of puts by writer A (keys a/1..)
	WriterB    string // "", "put" (one put of a/9), "push" (PushUpdate of a/9), "delete" (delete of a/1)
	Cancels    int    // number of Cancel calls on the subscription by the canceller thread
	SharedQ    bool   // a second subscription is created from the same query object (must be unaffected)
	HookCancel bool   // a pre-put hook is registered and cancelled concurrently
	TwoCancels bool   // a second subscription (own query) is cancelled by another thread at the same time; a third one stays
}

func (p C14SParams) Name() string {
	return fmt.Sprintf("c14s/writerA=%d/writerB=%s/cancels=%d/sharedq=%v/hookcancel=%v/twocancels=%v", p.WriterA, p.WriterB, p.Cancels, p.SharedQ, p.HookCancel, p.TwoCancels)
}

type c14rec struct {
	record.Base
	sync.Mutex
	V int
}

type c14ev struct {
	kind string // put-call, put-ret, cancel-call, cancel-ret, hook-call, hcancel-call, hcancel-ret
	key  string
}

type c14state struct {
	log    []c14ev
	issues []vsched.Issue
}

var c14s *c14state
var c14dir string

func c14fail(clause, disc, format string, a ...interface{}) {
	for _, is := range c14s.issues {
		if is.Clause == clause && is.Disc == disc {
			return
		}
	}
	c14s.issues = append(c14s.issues, vsched.Issue{Clause: clause, Disc: disc, Detail: fmt.Sprintf(format, a...)})
}

type c14hook struct {
	HookBase
}

func (h *c14hook) UsesPrePut() bool { return true }
func (h *c14hook) PrePut(r record.Record) (record.Record, error) {
	c14s.log = append(c14s.log, c14ev{"hook-call", r.Key()})
	vsched.Emit("hook-call:" + r.Key())
	return r, nil
}

// VerifC14S builds the scenario.
func VerifC14S(p C14SParams) *vsched.Scenario {
	sc := &vsched.Scenario{Name: p.Name(), MaxSteps: 60000}
	sc.Reset = func() {
		VerifReset()
		c14s = &c14state{}
		if c14dir == "" {
			d, err := os.MkdirTemp("", "verif-c14s-")
			if err != nil {
				panic(err)
			}
			c14dir = d
		}
	}
	sc.Body = func() {
		s := c14s
		if err := InitializeWithPath(c14dir); err != nil {
			c14fail("harness", "init", "%v", err)
			return
		}
		if _, err := Register(&Database{Name: "c14db", Description: "c14", StorageType: "hashmap"}); err != nil {
			c14fail("harness", "register", "%v", err)
			return
		}
		db := NewInterface(&Options{Local: true, Internal: true})
		q := query.New("c14db:a/")
		sub, err := db.Subscribe(q)
		if err != nil {
			c14fail("harness", "subscribe", "%v", err)
			return
		}
		var sub2 *Subscription
		if p.SharedQ {
			sub2, _ = db.Subscribe(q)
		}
		var subB, subC *Subscription
		if p.TwoCancels {
			subB, _ = db.Subscribe(query.New("c14db:a/"))
			subC, _ = db.Subscribe(query.New("c14db:a/"))
		}
		var rh *RegisteredHook
		if p.HookCancel {
			rh, err = RegisterHook(query.New("c14db:a/"), &c14hook{})
			if err != nil {
				c14fail("harness", "hook", "%v", err)
				return
			}
		}
		put := func(key string, v int) {
			r := &c14rec{V: v}
			r.SetKey("c14db:" + key)
			s.log = append(s.log, c14ev{"put-call", key})
			vsched.Emit("put-call:" + key)
			if err := db.Put(r); err != nil {
				c14fail("harness", "put-failed", "put %s: %v", key, err)
			}
			s.log = append(s.log, c14ev{"put-ret", key})
			vsched.Emit("put-ret:" + key)
		}
		vsched.Explore(true)
		var wg sync.WaitGroup
		wg.Add(1)
		go func() {
			defer wg.Done()
			for i := 1; i <= p.WriterA; i++ {
				put(fmt.Sprintf("a/%d", i), i)
			}
		}()
		if p.WriterB != "" {
			wg.Add(1)
			go func() {
				defer wg.Done()
				switch p.WriterB {
				case "put":
					put("a/9", 9)
				case "delete":
					s.log = append(s.log, c14ev{"del-call", "a/1"})
					derr := db.Delete("c14db:a/1") // may fail with not-found: fine
					if derr == nil {
						s.log = append(s.log, c14ev{"put-ret", "a/1"}) // a successful delete is a write of a/1
					} else {
						s.log = append(s.log, c14ev{"del-failed", "a/1"})
					}
				case "push":
					c, _ := getController("c14db")
					r := &c14rec{V: 9}
					r.SetKey("c14db:a/9")
					r.UpdateMeta()
					s.log = append(s.log, c14ev{"put-call", "a/9"})
					r.Lock()
					c.PushUpdate(r)
					r.Unlock()
					s.log = append(s.log, c14ev{"put-ret", "a/9"})
				}
			}()
		}
		wg.Add(1)
		go func() {
			defer wg.Done()
			for i := 0; i < p.Cancels; i++ {
				vsched.Point("cancel")
				s.log = append(s.log, c14ev{"cancel-call", ""})
				vsched.Emit("cancel-call")
				if err := sub.Cancel(); err != nil {
					c14fail("harness", "cancel-failed", "%v", err)
				}
				s.log = append(s.log, c14ev{"cancel-ret", ""})
				vsched.Emit("cancel-ret")
			}
		}()
		if p.TwoCancels {
			wg.Add(1)
			go func() {
				defer wg.Done()
				vsched.Point("cancel-b")
				if err := subB.Cancel(); err != nil {
					c14fail("harness", "cancel-failed", "%v", err)
				}
				vsched.Emit("cancel-b-ret")
			}()
		}
		if p.HookCancel {
			wg.Add(1)
			go func() {
				defer wg.Done()
				vsched.Point("hook-cancel")
				s.log = append(s.log, c14ev{"hcancel-call", ""})
				_ = rh.Cancel()
				s.log = append(s.log, c14ev{"hcancel-ret", ""})
				vsched.Emit("hcancel-ret")
			}()
		}
		wg.Wait()
		vsched.Explore(false)

		// ---- judge ----
		var delivered []string
		closed := false
	drain:
		for {
			select {
			case r, ok := <-sub.Feed:
				if !ok {
					closed = true
					break drain
				}
				// (the feed holds the stored record objects themselves, so only the key is stable)
				delivered = append(delivered, strings.TrimPrefix(r.Key(), "c14db:"))
			default:
				break drain
			}
		}
		vsched.Emit("delivered:" + strings.Join(delivered, ","))
		desc := func() string {
			var sb strings.Builder
			for _, e := range s.log {
				fmt.Fprintf(&sb, "%s(%s) ", e.kind, e.key)
			}
			return fmt.Sprintf("log: %s| delivered: %v closed=%v", sb.String(), delivered, closed)
		}
		if p.Cancels > 0 && !closed {
			c14fail("feed-closed-after-cancel", "open", "Cancel returned but the feed is not closed\n%s", desc())
		}
		if p.Cancels == 0 && closed {
			c14fail("feed-closed-after-cancel", "closed-without-cancel", "the feed was closed although the subscription was never cancelled\n%s", desc())
		}
		// exactly once: never more deliveries of a key than writes of it; every write that completed while the
		// subscription was active (before Cancel was called) was delivered; nothing of a write that began after Cancel returned
		cnt := map[string]int{}
		for _, k := range delivered {
			cnt[k]++
		}
		firstCancelCall, firstCancelRet := -1, -1
		for i, e := range s.log {
			if e.kind == "cancel-call" && firstCancelCall < 0 {
				firstCancelCall = i
			}
			if e.kind == "cancel-ret" && firstCancelRet < 0 {
				firstCancelRet = i
			}
		}
		writes, mustHave, lateOnly := map[string]int{}, map[string]int{}, map[string]bool{}
		for i, e := range s.log {
			switch e.kind {
			case "put-ret":
				writes[e.key]++
				if firstCancelCall < 0 || i < firstCancelCall {
					mustHave[e.key]++
				}
			case "put-call", "del-call":
				if _, seen := lateOnly[e.key]; !seen {
					lateOnly[e.key] = true
				}
				if !(firstCancelRet >= 0 && i > firstCancelRet) {
					lateOnly[e.key] = false
				}
			}
		}
		for k, n := range cnt {
			if n > writes[k] {
				c14fail("each-write-delivered-once", "duplicate", "%d deliveries of %s for %d successful writes\n%s", n, k, writes[k], desc())
			}
			if lateOnly[k] {
				c14fail("nothing-delivered-after-cancel", "late-delivery", "every write of %s began after Cancel had returned, yet it was delivered\n%s", k, desc())
			}
		}
		for k, n := range mustHave {
			if cnt[k] < n {
				c14fail("matching-write-is-delivered", "missing", "%d writes of %s completed while the subscription was active but only %d were delivered\n%s", n, k, cnt[k], desc())
			}
		}
		// writes that do not overlap in time arrive in their order (writer A's puts are sequential)
		last := 0
		for _, k := range delivered {
			if p.WriterB == "delete" {
				break // the delete is a further write of a/1 by another thread: no order is prescribed
			}
			var n int
			if _, err := fmt.Sscanf(k, "a/%d", &n); err == nil && n < 9 {
				if n < last {
					c14fail("non-overlapping-writes-in-order", "reordered", "writer A's sequential writes were delivered out of order\n%s", desc())
				}
				last = n
			}
		}
		// the second subscription created from the same query object is unaffected
		if sub2 != nil {
			n2 := 0
			closed2 := false
		drain2:
			for {
				select {
				case _, ok := <-sub2.Feed:
					if !ok {
						closed2 = true
						break drain2
					}
					n2++
				default:
					break drain2
				}
			}
			want := p.WriterA
			if p.WriterB == "put" || p.WriterB == "push" {
				want++
			}
			if closed2 || n2 < want {
				c14fail("other-subscription-unaffected", "affected", "a second subscription (same query object) got %d of %d writes, closed=%v, after the first one was cancelled\n%s", n2, want, closed2, desc())
			}
		}
		if p.TwoCancels {
			// after both cancels: a further write reaches exactly the remaining subscription and nothing panics
			for len(subC.Feed) > 0 {
				<-subC.Feed
			}
			put("a/7", 7)
			// records delivered before the cancel may still be buffered: drain them, then the feed must be closed
			closedB := false
		drainB:
			for {
				select {
				case _, ok := <-subB.Feed:
					if !ok {
						closedB = true
						break drainB
					}
				default:
					break drainB
				}
			}
			if !closedB {
				c14fail("feed-closed-after-cancel", "open", "the second cancelled subscription's feed is not closed\n%s", desc())
			}
			select {
			case r, ok := <-subC.Feed:
				if !ok || r == nil || !strings.HasSuffix(r.Key(), "a/7") {
					c14fail("other-subscription-unaffected", "affected", "the subscription that was not cancelled did not receive a later write (closed=%v)\n%s", !ok, desc())
				}
			default:
				c14fail("other-subscription-unaffected", "affected", "the subscription that was not cancelled did not receive a later write\n%s", desc())
			}
		}
		// hook: not called for puts that began after its Cancel returned
		if p.HookCancel {
			hret := -1
			for i, e := range s.log {
				if e.kind == "hcancel-ret" {
					hret = i
				}
			}
			for i, e := range s.log {
				if e.kind == "put-call" && e.key != "del" && hret >= 0 && i > hret {
					for _, h := range s.log[i:] {
						if h.kind == "hook-call" && strings.HasSuffix(h.key, e.key) {
							c14fail("hook-not-called-after-cancel", "called", "the hook was called for the write of %s, which began after the hook's Cancel had returned\n%s", e.key, desc())
						}
					}
				}
			}
		}
	}
	sc.Check = func(r *vsched.Result) []vsched.Issue {
		var out []vsched.Issue
		if c14s != nil {
			out = append(out, c14s.issues...)
		}
		if r.Panic != "" {
			out = append(out, vsched.Issue{Clause: "concurrent-writes-never-panic", Disc: r.PanicThread, Detail: r.Panic})
		}
		if r.Deadlock {
			out = append(out, vsched.Issue{Clause: "no-deadlock", Disc: "deadlock", Detail: "blocked: " + strings.Join(r.Blocked, " | ")})
		}
		return out
	}
	return sc
}
