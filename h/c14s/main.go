// C14, schedule clauses: concurrent writers against Cancel of a subscription or hook (engine S on package database).
package main

import (
	"github.com/safing/portbase/database"

	"verif/slib"
	"verif/vlib"
)

func main() {
	vlib.Main("C14", "model_checking", func(c *vlib.Ctx) {
		c.Rule("engine S part: writer A (1-2 sequential puts), writer B (put / PushUpdate / delete) and a canceller (1-2 Cancel calls; optionally a hook canceller, optionally a second subscription from the same query object) on the source-instrumented database, record and hashmap packages; all interleavings within the deviation bound, both default schedulers")
		var scns []*slib.Scn
		b := vlib.Pick(c, 3, 5)
		for _, wa := range []int{1, 2} {
			for _, wb := range []string{"", "put", "push", "delete"} {
				for _, cancels := range []int{0, 1, 2} {
					for _, shared := range []bool{false, true} {
						for _, hc := range []bool{false, true} {
							if hc && (shared || cancels == 2) {
								continue
							}
							if c.Quick() && wa == 2 && wb != "" && (shared || hc) {
								continue
							}
							p := database.C14SParams{WriterA: wa, WriterB: wb, Cancels: cancels, SharedQ: shared, HookCancel: hc}
							for _, hf := range []bool{false, true} {
								sc := database.VerifC14S(p)
								sc.HighFirst = hf
								if hf {
									sc.Name += "/sched=high"
								}
								scns = append(scns, &slib.Scn{Scenario: sc, Family: "c14s", Bound: b})
							}
						}
					}
				}
			}
		}
		// two subscriptions cancelled at the same time by different threads, a third one stays
		for _, wb := range []string{"", "put"} {
			p := database.C14SParams{WriterA: 1, WriterB: wb, Cancels: 1, TwoCancels: true}
			for _, hf := range []bool{false, true} {
				sc := database.VerifC14S(p)
				sc.HighFirst = hf
				if hf {
					sc.Name += "/sched=high"
				}
				scns = append(scns, &slib.Scn{Scenario: sc, Family: "c14s", Bound: b})
			}
		}
		slib.Run(c, scns, slib.Opts{})
	})
}
