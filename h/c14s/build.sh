#!/bin/bash
set -e
cd /verif
mkdir -p bin
[ -x bin/instr ] || (cd instr && go build -o /verif/bin/instr .)
rm -rf build/c14s.ov && mkdir -p build/c14s.ov
bin/instr -out build/c14s.ov -full database/record,database/iterator,database/storage/hashmap,database -harness h/c14s/overlay
go build -tags verif -overlay build/c14s.ov/overlay.json -o "$1" ./h/c14s
