// Reference model of C04: three layers per option, an independently written
// validator, the release-level gate and the persisted user layer.
package main

import (
	"encoding/json"
	"errors"
	"fmt"
	"math"
	"sort"
	"strconv"
	"strings"

	"github.com/safing/portbase/config"
)

const (
	rlKey  = "core/releaseLevel"
	expKey = "core/expertiseLevel"
)

// mv is a canonical validated value.
type mv struct {
	t config.OptionType
	s string
	a []string
	i int64
	b bool
}

func (v *mv) String() string {
	if v == nil {
		return "-"
	}
	switch v.t {
	case config.OptTypeString:
		return "s:" + strconv.Quote(v.s)
	case config.OptTypeStringArray:
		q := make([]string, len(v.a))
		for i, e := range v.a {
			q[i] = strconv.Quote(e)
		}
		return "a:[" + strings.Join(q, ",") + "]"
	case config.OptTypeInt:
		return "i:" + strconv.FormatInt(v.i, 10)
	case config.OptTypeBool:
		return "b:" + strconv.FormatBool(v.b)
	}
	return "?"
}

func (v *mv) equal(o *mv) bool { return v.String() == o.String() }

// goValue returns the value as the API hands it out (string, []string, int64, bool).
func (v *mv) goValue() any {
	switch v.t {
	case config.OptTypeString:
		return v.s
	case config.OptTypeStringArray:
		return append([]string{}, v.a...)
	case config.OptTypeInt:
		return v.i
	case config.OptTypeBool:
		return v.b
	}
	return nil
}

// spec describes one registered option; the predicates are hand-written
// equivalents of the regular expression / validation function given to portbase.
type spec struct {
	key     string
	typ     config.OptionType
	level   config.ReleaseLevel
	def     any
	regex   string
	reOK    func(string) bool
	allowed []any
	fnOK    func(*mv) bool
	defMV   *mv
}

func allDigits(s string) bool {
	if s == "" {
		return false
	}
	for _, r := range s {
		if r < '0' || r > '9' {
			return false
		}
	}
	return true
}

func lowerOnly(s string) bool {
	for _, r := range s {
		if r < 'a' || r > 'z' {
			return false
		}
	}
	return true
}

func oneOfABC(s string) bool { return s == "a" || s == "b" || s == "c" }

var builtinSpecs = []spec{
	{key: rlKey, typ: config.OptTypeString, def: "stable", allowed: []any{"stable", "beta", "experimental"}},
	{key: expKey, typ: config.OptTypeString, def: "user", allowed: []any{"user", "expert", "developer"}},
}

// bfsSpecs: the registry of the history exploration (DESIGN 6 C04).
var bfsSpecs = []spec{
	{key: "a/int", typ: config.OptTypeInt, def: 7, regex: `^[0-9]+$`, reOK: allDigits},
	{key: "b/beta", typ: config.OptTypeInt, level: config.ReleaseLevelBeta, def: 1},
	{key: "s/pv", typ: config.OptTypeString, def: "low", allowed: []any{"low", "high"}},
	{key: "s/fn", typ: config.OptTypeString, def: "ok", fnOK: func(v *mv) bool { return !strings.Contains(v.s, "!") }},
	{key: "l/arr", typ: config.OptTypeStringArray, def: []string{"a"}, regex: `^[a-c]$`, reOK: oneOfABC, allowed: []any{"a", "b"}},
	{key: "f/bool", typ: config.OptTypeBool, level: config.ReleaseLevelExperimental, def: false},
}

// sweepExtraSpecs: further option shapes used by the depth-1 value sweeps.
var sweepExtraSpecs = []spec{
	{key: "p/intpv", typ: config.OptTypeInt, def: 1, allowed: []any{1, 2, 1000000}},
	{key: "r/strre", typ: config.OptTypeString, def: "abc", regex: `^[a-z]*$`, reOK: lowerOnly},
	{key: "m/arrplain", typ: config.OptTypeStringArray, def: []string{}},
	{key: "g/boolst", typ: config.OptTypeBool, def: true},
	{key: "v/intfn", typ: config.OptTypeInt, def: 2, fnOK: func(v *mv) bool { return v.i%2 == 0 }},
	{key: "w/arrfn", typ: config.OptTypeStringArray, def: []string{"x"}, level: config.ReleaseLevelBeta, fnOK: func(v *mv) bool { return len(v.a) <= 2 }},
	{key: "e/strexp", typ: config.OptTypeString, def: "d", level: config.ReleaseLevelExperimental},
}

const (
	clsValid = iota
	clsInvalid
	clsEither // the statement does not decide: rejected, or accepted with the given value
)

const maxExact = int64(1) << 53

// convert turns a carrier value into a canonical value by its Go type alone.
func convert(raw any) (*mv, int) {
	ival := func(i int64) (*mv, int) { return &mv{t: config.OptTypeInt, i: i}, clsValid }
	fval := func(f float64) (*mv, int) {
		if math.IsNaN(f) || math.IsInf(f, 0) || f != math.Trunc(f) {
			return nil, clsInvalid
		}
		if f > float64(maxExact) || f < -float64(maxExact) {
			return nil, clsEither
		}
		return ival(int64(f))
	}
	switch x := raw.(type) {
	case int:
		return ival(int64(x))
	case int8:
		return ival(int64(x))
	case int16:
		return ival(int64(x))
	case int32:
		return ival(int64(x))
	case int64:
		return ival(x)
	case uint:
		if uint64(x) > math.MaxInt64 {
			return nil, clsEither
		}
		return ival(int64(x))
	case uint8:
		return ival(int64(x))
	case uint16:
		return ival(int64(x))
	case uint32:
		return ival(int64(x))
	case uint64:
		if x > math.MaxInt64 {
			return nil, clsInvalid
		}
		v, _ := ival(int64(x))
		return v, clsEither
	case json.Number:
		if i, err := strconv.ParseInt(string(x), 10, 64); err == nil {
			v, _ := ival(i)
			return v, clsEither
		}
		return nil, clsInvalid
	case float32:
		return fval(float64(x))
	case float64:
		return fval(x)
	case string:
		return &mv{t: config.OptTypeString, s: x}, clsValid
	case bool:
		return &mv{t: config.OptTypeBool, b: x}, clsValid
	case []string:
		return &mv{t: config.OptTypeStringArray, a: append([]string{}, x...)}, clsValid
	case []interface{}:
		out := make([]string, 0, len(x))
		for _, e := range x {
			s, ok := e.(string)
			if !ok {
				return nil, clsInvalid
			}
			out = append(out, s)
		}
		return &mv{t: config.OptTypeStringArray, a: out}, clsValid
	}
	return nil, clsInvalid
}

func sameNumber(a any, i int64) bool {
	v, c := convert(a)
	return c != clsInvalid && v != nil && v.t == config.OptTypeInt && v.i == i
}

// classify is the reference validator: type, regular expression, allowed
// values, validation function.
func classify(sp *spec, raw any) (*mv, int) {
	v, cls := convert(raw)
	if cls == clsInvalid {
		return nil, clsInvalid
	}
	if v == nil { // outside the exact range
		if sp.typ != config.OptTypeInt {
			return nil, clsInvalid
		}
		return nil, clsEither
	}
	if v.t != sp.typ {
		return nil, clsInvalid
	}
	inAllowed := func(s string) bool {
		for _, a := range sp.allowed {
			if as, ok := a.(string); ok && as == s {
				return true
			}
		}
		return false
	}
	switch v.t {
	case config.OptTypeString:
		if sp.reOK != nil && !sp.reOK(v.s) {
			return nil, clsInvalid
		}
		if sp.allowed != nil && !inAllowed(v.s) {
			return nil, clsInvalid
		}
	case config.OptTypeStringArray:
		for _, e := range v.a {
			if sp.reOK != nil && !sp.reOK(e) {
				return nil, clsInvalid
			}
			if sp.allowed != nil && !inAllowed(e) {
				return nil, clsInvalid
			}
		}
	case config.OptTypeInt:
		if sp.reOK != nil && !sp.reOK(strconv.FormatInt(v.i, 10)) {
			return nil, clsInvalid
		}
		if sp.allowed != nil {
			ok := false
			for _, a := range sp.allowed {
				ok = ok || sameNumber(a, v.i)
			}
			if !ok {
				return nil, clsInvalid
			}
		}
	}
	if sp.fnOK != nil && !sp.fnOK(v) {
		return nil, clsInvalid
	}
	return v, cls
}

// toOption builds the portbase option of a spec.
func (sp *spec) toOption() *config.Option {
	o := &config.Option{
		Name:            sp.key,
		Key:             sp.key,
		Description:     "verif option",
		OptType:         sp.typ,
		ReleaseLevel:    sp.level,
		ExpertiseLevel:  config.ExpertiseLevelUser,
		DefaultValue:    sp.def,
		ValidationRegex: sp.regex,
	}
	for _, a := range sp.allowed {
		o.PossibleValues = append(o.PossibleValues, config.PossibleValue{Name: fmt.Sprint(a), Value: a})
	}
	if sp.fnOK != nil {
		pred := sp.fnOK
		typ := sp.typ
		o.ValidationFunc = func(value interface{}) error {
			v, cls := convert(value)
			if cls == clsInvalid || v == nil || v.t != typ {
				return fmt.Errorf("validation function got %T", value)
			}
			if !pred(v) {
				return errors.New("refused by validation function")
			}
			return nil
		}
	}
	return o
}

type layer map[string]*mv

func (l layer) clone() layer {
	if l == nil {
		return nil
	}
	o := layer{}
	for k, v := range l {
		o[k] = v
	}
	return o
}

func (l layer) String() string {
	if l == nil {
		return "<none>"
	}
	keys := make([]string, 0, len(l))
	for k := range l {
		keys = append(keys, k)
	}
	sort.Strings(keys)
	var sb strings.Builder
	for _, k := range keys {
		fmt.Fprintf(&sb, "%s=%s;", k, l[k])
	}
	return "{" + sb.String() + "}"
}

// model is the three-layer reference.
type model struct {
	specs map[string]*spec
	keys  []string // sorted
	user  layer
	def   layer
	file  layer // nil: never saved
	// broken: persistence fault injected (the directory of config.json is
	// missing, so SaveConfig and loadConfig fail); the stored file survives
	// and is back after the repair.
	broken bool
}

func newModel(specs []spec) *model {
	m := &model{specs: map[string]*spec{}, user: layer{}, def: layer{}}
	all := append(append([]spec{}, builtinSpecs...), specs...)
	for i := range all {
		sp := all[i]
		d, cls := classify(&sp, sp.def)
		if cls != clsValid {
			panic("harness: registered default of " + sp.key + " is not valid")
		}
		sp.defMV = d
		m.specs[sp.key] = &sp
		m.keys = append(m.keys, sp.key)
	}
	sort.Strings(m.keys)
	return m
}

func levelOf(name string) config.ReleaseLevel {
	switch name {
	case "beta":
		return config.ReleaseLevelBeta
	case "experimental":
		return config.ReleaseLevelExperimental
	}
	return config.ReleaseLevelStable
}

// effRL is the effective release-level setting: the layered value of core/releaseLevel.
func (m *model) effRL() config.ReleaseLevel {
	if v := m.user[rlKey]; v != nil {
		return levelOf(v.s)
	}
	if v := m.def[rlKey]; v != nil {
		return levelOf(v.s)
	}
	return config.ReleaseLevelStable
}

func (m *model) enabled(sp *spec) bool { return sp.level <= m.effRL() }

// effective returns the value every getter must return and the layer it comes from.
func (m *model) effective(key string) (*mv, string) {
	sp := m.specs[key]
	if v := m.user[key]; v != nil && m.enabled(sp) {
		return v, "user"
	}
	if v := m.def[key]; v != nil {
		return v, "default"
	}
	return sp.defMV, "registered"
}

func (m *model) String() string {
	s := "user=" + m.user.String() + " default=" + m.def.String() + " file=" + m.file.String()
	if m.broken {
		s += " persistence=broken"
	}
	return s
}
