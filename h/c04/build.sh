#!/bin/bash
set -e
cd /verif
./mkoverlay.sh c04
go build -tags verif -overlay build/c04.overlay.json -o "$1" ./h/c04
/verif/h/c04s/build.sh /verif/build/c04s
