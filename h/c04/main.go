// C04 (engine Q part): config getters return the layered, validated, current value.
//
// Phase "sweep": depth-1 enumeration of every carrier type x every option shape
// x every set/replace/validate entry point from three base states, each
// followed by a persistence epilogue (save, new process, load).
// Phase "bfs": breadth-first search over histories of set / set-default /
// replace / replace-default / save / load / restart operations on the real
// package against a three-layer reference model; every getter is compared
// after every step; states are de-duplicated on (private layers, gate, file,
// model). The package has global state, so the work is spread over shard
// processes; every history is replayed from a reset package state.
// The setter-vs-getter interleaving clause is not part of this harness (engine S).
package main

import (
	"crypto/sha256"
	"encoding/hex"
	"encoding/json"
	"flag"
	"fmt"
	"os"
	"path/filepath"
	"runtime/debug"
	"sort"
	"strconv"
	"strings"
	"sync/atomic"
	"time"

	"github.com/safing/portbase/config"
	"github.com/safing/portbase/log"

	"verif/vlib"
)

var (
	flagPhase    = flag.String("phase", "", "shard: sweep|bfs (internal)")
	flagWork     = flag.String("work", "", "shard: work directory (internal)")
	flagFrontier = flag.String("frontier", "", "shard: frontier file (internal)")
	flagDepth    = flag.Int("depth", 0, "shard: depth (internal)")
	flagLast     = flag.Bool("last", false, "shard: deepest level, check only (internal)")
	flagMaxDepth = flag.Int("maxdepth", 0, "override the history depth")
)

func itoa(n int64) string   { return strconv.FormatInt(n, 10) }
func quote(s string) string { return strconv.Quote(s) }
func quoteList(l []string) string {
	q := make([]string, len(l))
	for i, e := range l {
		q[i] = strconv.Quote(e)
	}
	return "{" + strings.Join(q, ",") + "}"
}

type witness struct {
	Phase   string   `json:"phase"`
	Case    int      `json:"case,omitempty"`
	History []string `json:"history"`
}

type violRec struct {
	A, B    int // deterministic order: (case,0) or (frontier index, op index)
	Clause  string
	Site    string
	Disc    string
	Detail  string
	Witness witness
}

type succRec struct {
	Key    string
	Fi, Oi int
	NT     bool
}

type shardOut struct {
	Viol      []violRec
	Succ      []succRec
	Processed int64
}

func histNames(ops []*op) []string {
	out := make([]string, len(ops))
	for i, o := range ops {
		out[i] = o.name()
	}
	return out
}

func hashKey(k string) string {
	h := sha256.Sum256([]byte(k))
	return hex.EncodeToString(h[:12])
}

var progress int64

func (r *runner) safeProbe(o *op, last bool) (f *finding) {
	p, st := vlib.Catch(func() { f = r.probe(o, last) })
	if p != nil {
		site := "probe"
		if o != nil {
			site = o.site()
		}
		return &finding{"getters-after-operation", site, "panic:" + vlib.PanicSite(st) + ":" + panicKind(p), fmt.Sprintf("probing after %s panicked: %v", site, p)}
	}
	return f
}

// run replays a history on a reset package and the model. All getters are
// compared after every step from probeFrom on and after the last step.
func (r *runner) run(ops []*op, probeFrom int) (f *finding, at int, outcome string) {
	atomic.AddInt64(&progress, 1)
	r.reset()
	for i, o := range ops {
		f, outcome = r.apply(o)
		if f != nil {
			return f, i, outcome
		}
		last := i == len(ops)-1
		if last || i >= probeFrom {
			if f = r.safeProbe(o, last); f != nil {
				return f, i, "violation"
			}
		} else {
			r.touch()
		}
	}
	return nil, len(ops) - 1, outcome
}

// ---------- sweep cases ----------

type sweepCase struct {
	base   string
	ops    []*op
	prefix int // steps of the base state (their results are checked, getters compared from the case's own operation on)
}

func allSpecs() []spec { return append(append([]spec{}, bfsSpecs...), sweepExtraSpecs...) }

func sweepBases() map[string][]*op {
	specs := allSpecs()
	var u1, d2, dHalf []entry
	for i, sp := range specs {
		u1 = append(u1, entry{sp.key, samples[sp.key].v1})
		d2 = append(d2, entry{sp.key, samples[sp.key].v2})
		if i%2 == 0 {
			dHalf = append(dHalf, entry{sp.key, samples[sp.key].v2})
		}
	}
	u1exp := append(append([]entry{}, u1...), entry{rlKey, samples[rlKey].v2}, entry{expKey, samples[expKey].v1})
	return map[string][]*op{
		"empty":                             nil,
		"all-user-and-default-experimental": {{kind: opReplace, entries: u1exp}, {kind: opReplaceDefault, entries: d2}},
		"all-user-half-default-stable":      {{kind: opReplace, entries: u1}, {kind: opReplaceDefault, entries: dHalf}},
		"all-user-saved-then-save-fails":    {{kind: opReplace, entries: u1}, {kind: opSave}, {kind: opReplaceDefault, entries: dHalf}, {kind: opBreak}},
	}
}

var baseOrder = []string{"empty", "all-user-and-default-experimental", "all-user-half-default-stable", "all-user-saved-then-save-fails"}

// sweepCases enumerates the depth-1 cases deterministically.
func sweepCases(quick bool) []sweepCase {
	specs := allSpecs()
	bases := sweepBases()
	keys := []string{rlKey, expKey}
	for _, sp := range specs {
		keys = append(keys, sp.key)
	}
	keys = append(keys, "nope/unknown")
	var out []sweepCase
	for _, bn := range baseOrder {
		prefix := bases[bn]
		for _, k := range keys {
			cars := append([]carrier{cNil}, sweepCarriers(nil)...)
			for _, cr := range cars {
				cr := cr
				one := []entry{{k, cr}}
				kinds := []int{opSet, opSetDefault, opReplace, opReplaceDefault, opValidateValue, opValidateConfig, opNewPerspective}
				if isJSONable(cr.mk()) {
					kinds = append(kinds, opReplaceJSON, opReplaceDefaultJSON)
				}
				for _, kind := range kinds {
					if kind == opValidateValue && cr.mk() == nil {
						continue // nil means "unset" for the setters; validating nil alone has no defined meaning
					}
					if bn != "empty" && quick && (kind == opValidateValue || kind == opValidateConfig || kind == opNewPerspective) {
						continue
					}
					o := &op{kind: kind, key: k, val: cr, entries: one}
					ops := append(append([]*op{}, prefix...), o)
					// persistence epilogue (with the fault: first observe the state while saving fails, then repair)
					if bn == "all-user-saved-then-save-fails" {
						if kind == opValidateValue || kind == opValidateConfig || kind == opNewPerspective ||
							(quick && (kind == opReplaceJSON || kind == opReplaceDefaultJSON)) {
							continue
						}
						ops = append(ops, &op{kind: opSave}, &op{kind: opRepair})
					}
					switch kind {
					case opSet:
						ops = append(ops, &op{kind: opReload})
					case opReplace, opReplaceJSON:
						ops = append(ops, &op{kind: opRestart})
					case opSetDefault, opReplaceDefault:
						ops = append(ops, &op{kind: opSaveWipeLoad})
					}
					out = append(out, sweepCase{bn, ops, len(prefix)})
				}
			}
		}
	}
	return out
}

// ---------- shard side ----------

func newRunner(specs []spec) *runner {
	dir := "/dev/shm"
	if st, err := os.Stat(dir); err != nil || !st.IsDir() {
		dir = os.TempDir()
	}
	d, err := os.MkdirTemp(dir, "verif-c04-")
	if err != nil {
		panic(err)
	}
	return &runner{specs: specs, root: d, path: filepath.Join(d, "data", "config.json")}
}

func (r *runner) cleanup() { _ = os.RemoveAll(r.root) }

func startWatchdog() {
	go func() {
		lastSeen := int64(-1)
		for {
			time.Sleep(90 * time.Second)
			cur := atomic.LoadInt64(&progress)
			if cur == lastSeen {
				fmt.Fprintln(os.Stderr, "watchdog: no progress for 90s (deadlock in the package under test?)")
				os.Exit(3)
			}
			lastSeen = cur
		}
	}()
}

const chunk = 64

func shardSweep(c *vlib.Ctx) {
	cases := sweepCases(c.Quick())
	r := newRunner(allSpecs())
	defer r.cleanup()
	var out shardOut
	for lo := 0; lo < len(cases); lo += chunk {
		if !c.ClaimKey(fmt.Sprintf("sweep-%d", lo), lo/chunk) {
			continue
		}
		if c.Expired() {
			break
		}
		for i := lo; i < lo+chunk && i < len(cases); i++ {
			cs := cases[i]
			f, at, outcome := r.run(cs.ops, cs.prefix)
			out.Processed++
			c.Outcome(outcome)
			if f != nil {
				out.Viol = append(out.Viol, violRec{i, 0, f.clause, f.site, f.disc, "base state " + cs.base + ": " + f.detail,
					witness{"sweep", i, histNames(cs.ops[:at+1])}})
			}
		}
	}
	c.Add(0, r.steps, out.Processed)
	writeOut(c, &out)
}

func writeOut(c *vlib.Ctx, out *shardOut) {
	b, _ := json.Marshal(out)
	p := filepath.Join(*flagWork, fmt.Sprintf("out-%s-%d-%d.json", *flagPhase, *flagDepth, c.Shard))
	if err := os.WriteFile(p, b, 0o644); err != nil {
		c.EngineError("write %s: %v", p, err)
	}
}

func shardBFS(c *vlib.Ctx) {
	ops := bfsOps()
	var frontier [][]int
	b, err := os.ReadFile(*flagFrontier)
	if err == nil {
		err = json.Unmarshal(b, &frontier)
	}
	if err != nil {
		c.EngineError("frontier: %v", err)
		return
	}
	r := newRunner(bfsSpecs)
	defer r.cleanup()
	var out shardOut
	best := map[string]succRec{}
	outcomes := map[string]int64{}
	for lo := 0; lo < len(frontier); lo += chunk {
		if !c.ClaimKey(fmt.Sprintf("bfs-%d-%d", *flagDepth, lo), lo/chunk) {
			continue
		}
		if c.Expired() {
			break
		}
		for fi := lo; fi < lo+chunk && fi < len(frontier); fi++ {
			hist := make([]*op, len(frontier[fi])+1)
			for i, oi := range frontier[fi] {
				hist[i] = &ops[oi]
			}
			for oi := range ops {
				hist[len(hist)-1] = &ops[oi]
				f, at, outcome := r.run(hist, len(hist))
				outcomes[outcome]++
				if f != nil {
					out.Viol = append(out.Viol, violRec{fi, oi, f.clause, f.site, f.disc, f.detail, witness{"bfs", 0, histNames(hist[:at+1])}})
					continue
				}
				if *flagLast {
					continue
				}
				k := hashKey(r.stateKey())
				if old, ok := best[k]; !ok || fi < old.Fi || (fi == old.Fi && oi < old.Oi) {
					best[k] = succRec{k, fi, oi, r.nontrivial()}
				}
			}
			out.Processed++
		}
	}
	for _, s := range best {
		out.Succ = append(out.Succ, s)
	}
	for k, n := range outcomes {
		c.OutcomeN(k, n)
	}
	var nHist int64
	for _, n := range outcomes {
		nHist += n
	}
	c.Add(0, r.steps, nHist)
	writeOut(c, &out)
}

// ---------- parent side ----------

func collect(c *vlib.Ctx, work, phase string, depth, shards int) (viol []violRec, succ []succRec, processed int64) {
	for i := 0; i < shards; i++ {
		p := filepath.Join(work, fmt.Sprintf("out-%s-%d-%d.json", phase, depth, i))
		b, err := os.ReadFile(p)
		if err != nil {
			c.EngineError("missing shard output %s: %v", p, err)
			continue
		}
		var o shardOut
		if err := json.Unmarshal(b, &o); err != nil {
			c.EngineError("shard output %s: %v", p, err)
			continue
		}
		viol = append(viol, o.Viol...)
		succ = append(succ, o.Succ...)
		processed += o.Processed
		_ = os.Remove(p)
	}
	sort.Slice(viol, func(i, j int) bool {
		if viol[i].A != viol[j].A {
			return viol[i].A < viol[j].A
		}
		return viol[i].B < viol[j].B
	})
	return
}

var pending []violRec

// report queues violation records; flush hands them to vlib shortest history
// first, so that the recorded witness of every signature is a minimal one.
func report(c *vlib.Ctx, viol []violRec) { pending = append(pending, viol...) }

func flush(c *vlib.Ctx) {
	sort.SliceStable(pending, func(i, j int) bool {
		return len(pending[i].Witness.History) < len(pending[j].Witness.History)
	})
	for _, v := range pending {
		c.Violate(v.Clause, v.Site, v.Disc, v.Detail, v.Witness)
	}
	pending = nil
}

func replay(c *vlib.Ctx) {
	var w witness
	if _, err := c.LoadReplay(&w); err != nil {
		c.EngineError("replay: %v", err)
		return
	}
	var hist []*op
	var r *runner
	switch w.Phase {
	case "sweep":
		var cases []sweepCase
		for _, q := range []bool{true, false} {
			cases = sweepCases(q)
			if w.Case < len(cases) && strings.Join(histNames(cases[w.Case].ops[:min(len(w.History), len(cases[w.Case].ops))]), "\n") == strings.Join(w.History, "\n") {
				break
			}
			cases = nil
		}
		if cases == nil {
			c.EngineError("replay: sweep case %d does not match the recorded history (alphabet changed?)", w.Case)
			return
		}
		hist = cases[w.Case].ops[:len(w.History)]
		r = newRunner(allSpecs())
	case "bfs":
		ops := bfsOps()
		byName := map[string]*op{}
		for i := range ops {
			byName[ops[i].name()] = &ops[i]
		}
		for _, n := range w.History {
			o, ok := byName[n]
			if !ok {
				c.EngineError("replay: unknown operation %q", n)
				return
			}
			hist = append(hist, o)
		}
		r = newRunner(bfsSpecs)
	default:
		c.EngineError("replay: unknown phase %q", w.Phase)
		return
	}
	defer r.cleanup()
	f, at, outcome := r.run(hist, 0)
	fmt.Printf("replayed %s history %q\n  outcome of last executed step (%d): %s\n  model: %s\n  implementation: %s\n  file: %s\n",
		w.Phase, w.History, at, outcome, r.m, safeDump(), r.fileText())
	if f != nil {
		fmt.Printf("  still fails: %s|%s|%s\n  %s\n", f.clause, f.site, f.disc, f.detail)
		c.Violate(f.clause, f.site, f.disc, f.detail, w)
	} else {
		fmt.Println("  no violation")
	}
	c.Add(1, r.steps, 1)
}

func safeDump() (s string) {
	done := make(chan string, 1)
	go func() { done <- config.VerifDump() }()
	select {
	case s = <-done:
		return s
	case <-time.After(2 * time.Second):
		return "<an option lock is held: dump not possible>"
	}
}

func main() {
	vlib.Main("C04", "model_checking", func(c *vlib.Ctx) {
		// the setter-vs-getter interleaving clause is decided by the engine-S part
		if c.ReplayPart(`"c04s/`, "/verif/build/c04s") {
			return
		}
		if !c.IsShard() {
			defer c.RunPart("/verif/build/c04s")
		}
		log.SetLogLevel(log.CriticalLevel) // the package logs an error for every wrong-type/unknown getter; logging is not started
		if c.Replay != "" {
			replay(c)
			return
		}
		if c.IsShard() {
			debug.SetGCPercent(400)
			startWatchdog()
			switch *flagPhase {
			case "sweep":
				shardSweep(c)
			case "bfs":
				shardBFS(c)
			default:
				c.EngineError("unknown phase %q", *flagPhase)
			}
			return
		}
		parent(c)
	})
}

func parent(c *vlib.Ctx) {
	ops := bfsOps()
	cases := sweepCases(c.Quick())
	maxDepth := vlib.Pick(c, 3, 4)
	if *flagMaxDepth > 0 {
		maxDepth = *flagMaxDepth
	}
	c.SetBudget(vlib.Pick(c, 5*time.Minute, 28*time.Minute))
	nCar := len(sweepCarriers(nil)) + 1
	c.Rule(fmt.Sprintf("(1) value sweep: %d cases = 4 base states (empty; every option set in both layers with release level experimental; user layer set, half the default layer, release level stable; user layer set and saved, then persistence broken so that saving fails) x %d keys (%d registered options of all four types with/without regex, allowed values, validation function, release level; one unknown key) x %d carrier values (all Go integer types, float32/64 integral, non-integral, NaN, Inf, 10^6 and +-2^53 edges, strings, bools, []string, []interface{}, typed nil list, list with a non-string, nil, []byte, map, struct, pointer, json.Number) x {SetConfigOption, SetDefaultConfigOption, ReplaceConfig, ReplaceDefaultConfig, the same through MapToJSON->JSONToMap, Option.ValidateValue, ValidateConfig, NewPerspective}, each state-changing case followed by save / new process state / loadConfig; "+
		"(2) BFS over histories to depth %d over %d operations on %d options + core/releaseLevel: Set/SetDefault with {valid native, valid second (JSON carrier or boundary), invalid, nil} per option, release level {beta, experimental, stable, bogus, nil} in both layers, Replace/ReplaceDefault with all maps of <= 2 entries over a pool of 11 valid/invalid/unknown entries, SaveConfig, loadConfig, loadConfig(strict), save+wipe+load, save+restart+load, restart+load, and the fault pair break-persistence (the directory of config.json disappears: SaveConfig and loadConfig fail) / repair-persistence, so that every operation is also run while saving fails; every history is replayed on a reset package; states de-duplicated on (private user/default layers, release-level gate, config.json bytes, model); the deepest level is checked but its states are not stored. "+
		"After every step: plain and Concurrent getters created after the step, before the history and (last step) never called before, wrong-type and unknown-name getters, Option.UserValue/IsSetByUser, GetActiveConfigValues, four Perspectives. "+
		"non-trivial = distinct states in which some option holds different values in user and default layer or a release-level-gated option has a user value",
		len(cases), len(allSpecs())+3, len(allSpecs())+2, nCar, maxDepth, len(ops), len(bfsSpecs)))
	c.Assume("option keys are prefix-free at '/' boundaries (the hierarchical file format cannot hold a and a/b together)")
	c.Assume("callers do not modify a slice after handing it to a setter (the package stores it without copying) and do not modify slices returned by getters")
	c.Assume("uint64 and json.Number carriers, and a nil entry in a replace map, may be refused or accepted (if accepted the value must be the integer / the option must be unset); whether unknown keys in a replace map are reported is not asserted")
	c.Assume("I/O failures of config.json are outside the model; loadConfig without a file must leave everything unchanged")
	c.Assume("Perspective getters: the perspective's validated entry if the option's release level is enabled by the global effective release-level setting, otherwise not available")
	c.Assume("the setter-vs-getter interleaving clause (every getter call that begins after the operation returned, from many goroutines) is decided by engine S, not here; here getters run sequentially after each operation")

	work, err := os.MkdirTemp("", "verif-c04-work-")
	if err != nil {
		c.EngineError("mkdtemp: %v", err)
		return
	}
	defer os.RemoveAll(work)
	defer flush(c)
	shards := c.Workers
	if shards > 16 {
		shards = 16
	}
	if shards < 1 {
		shards = 1
	}

	// initial state
	{
		r := newRunner(bfsSpecs)
		r.reset()
		if f := r.safeProbe(nil, true); f != nil {
			c.Violate(f.clause, f.site, f.disc, f.detail, witness{"bfs", 0, nil})
		}
		r.cleanup()
	}

	// phase 1: sweep
	t0 := time.Now()
	c.SpawnShards(shards, "-phase", "sweep", "-work", work)
	viol, _, processed := collect(c, work, "sweep", 0, shards)
	report(c, viol)
	c.Extra("sweep_cases", len(cases))
	c.Extra("sweep_cases_done", processed)
	c.Extra("sweep_violating_cases", len(viol))
	if processed < int64(len(cases)) {
		c.NotExhaustive(fmt.Sprintf("value sweep: %d of %d cases done", processed, len(cases)))
	}
	for _, i := range []int{5, len(cases) / 3, 2 * len(cases) / 3} {
		if i < len(cases) {
			c.Sample(map[string]any{"phase": "sweep", "base": cases[i].base, "history": histNames(cases[i].ops[len(cases[i].ops)-min(2, len(cases[i].ops)):])})
		}
	}
	fmt.Printf("sweep: %d cases, %d violating, %.1fs\n", processed, len(viol), time.Since(t0).Seconds())

	// phase 2: BFS
	seen := map[string]struct{}{}
	frontier := [][]int{{}}
	var nStates, nNT int64 = 1, 0
	depthDone := 0
	for depth := 1; depth <= maxDepth && len(frontier) > 0; depth++ {
		if c.Expired() {
			break
		}
		t1 := time.Now()
		last := depth == maxDepth
		ff := filepath.Join(work, fmt.Sprintf("frontier-%d.json", depth))
		b, _ := json.Marshal(frontier)
		if err := os.WriteFile(ff, b, 0o644); err != nil {
			c.EngineError("frontier: %v", err)
			return
		}
		args := []string{"-phase", "bfs", "-work", work, "-frontier", ff, "-depth", strconv.Itoa(depth)}
		if last {
			args = append(args, "-last")
		}
		c.SpawnShards(shards, args...)
		viol, succ, processed := collect(c, work, "bfs", depth, shards)
		report(c, viol)
		c.ExtraAdd("bfs_violating_transitions", int64(len(viol)))
		complete := processed == int64(len(frontier))
		// deterministic choice of the representative history of each new state
		sort.Slice(succ, func(i, j int) bool {
			if succ[i].Fi != succ[j].Fi {
				return succ[i].Fi < succ[j].Fi
			}
			return succ[i].Oi < succ[j].Oi
		})
		var next [][]int
		for _, s := range succ {
			if _, ok := seen[s.Key]; ok {
				continue
			}
			seen[s.Key] = struct{}{}
			h := append(append(make([]int, 0, depth), frontier[s.Fi]...), s.Oi)
			next = append(next, h)
			nStates++
			if s.NT {
				nNT++
			}
			if len(next)%2500 == 7 {
				names := make([]string, len(h))
				for i, oi := range h {
					names[i] = ops[oi].name()
				}
				c.Sample(map[string]any{"phase": "bfs", "history": names})
			}
		}
		fmt.Printf("depth %d: frontier %d (done %d) x %d ops, violating transitions %d, new states %d (total %d), %.1fs\n",
			depth, len(frontier), processed, len(ops), len(viol), len(next), nStates, time.Since(t1).Seconds())
		if !complete {
			c.NotExhaustive(fmt.Sprintf("BFS depth %d: %d of %d frontier states expanded", depth, processed, len(frontier)))
			break
		}
		depthDone = depth
		frontier = next
	}
	if depthDone < maxDepth && len(frontier) > 0 {
		c.NotExhaustive(fmt.Sprintf("BFS depth %d of %d completed", depthDone, maxDepth))
	}
	c.Extra("max_depth_completed", depthDone)
	c.Extra("bfs_alphabet_size", len(ops))
	c.Extra("states_note", "states = distinct (private layers, gate, file, model) keys through depth max-1 plus the initial state; transitions = implementation operations executed (including replayed prefixes); evaluations = sweep cases")
	c.Add(nStates, 0, 0)
	c.NontrivialN(nNT)
}
