// Alphabets: representative values per option for the history exploration,
// every carrier type for the depth-1 sweeps.
package main

import (
	"encoding/json"
	"math"

	"github.com/safing/portbase/config"
)

type sample struct{ v1, v2, bad carrier }

func ifc(xs ...any) func() any { return func() any { return append([]interface{}{}, xs...) } }
func strs(xs ...string) func() any {
	return func() any { return append([]string{}, xs...) }
}
func lit(x any) func() any { return func() any { return x } }

// samples: v1 = a valid value in a native Go carrier, v2 = a second valid value
// (JSON-decoded carrier where one exists, boundary value), bad = an invalid value.
var samples = map[string]sample{
	"a/int":  {cv("int(5)", lit(5)), cv("int64(1000000)", lit(int64(1000000))), cv("int(-1)", lit(-1))},
	"b/beta": {cv("int64(2^53)", lit(int64(1)<<53)), cv("float64(-2^53)", lit(-float64(int64(1)<<53))), cv("float64(2.5)", lit(2.5))},
	"s/pv":   {cv(`"high"`, lit("high")), cv(`"low"`, lit("low")), cv(`"mid"`, lit("mid"))},
	"s/fn":   {cv(`"a"`, lit("a")), cv(`""`, lit("")), cv(`"no!"`, lit("no!"))},
	"l/arr":  {cv(`[]string{"b"}`, strs("b")), cv(`[]interface{}{}`, ifc()), cv(`[]string{"c"}`, strs("c"))},
	"f/bool": {cv("true", lit(true)), cv("false", lit(false)), cv(`"true"`, lit("true"))},
	rlKey:    {cv(`"beta"`, lit("beta")), cv(`"experimental"`, lit("experimental")), cv(`"bogus"`, lit("bogus"))},

	"p/intpv":    {cv("int(2)", lit(2)), cv("float64(1)", lit(float64(1))), cv("int(3)", lit(3))},
	"r/strre":    {cv(`"x"`, lit("x")), cv(`""`, lit("")), cv(`"X"`, lit("X"))},
	"m/arrplain": {cv(`[]string{"p q"}`, strs("p q")), cv(`[]interface{}{"","/"}`, ifc("", "/")), cv(`[]interface{}{"a",1.0}`, ifc("a", 1.0))},
	"g/boolst":   {cv("false", lit(false)), cv("true", lit(true)), cv("int(1)", lit(1))},
	"v/intfn":    {cv("int(4)", lit(4)), cv("float64(-6)", lit(float64(-6))), cv("int(3)", lit(3))},
	"w/arrfn":    {cv(`[]string{"1","2"}`, strs("1", "2")), cv(`[]interface{}{"z"}`, ifc("z")), cv(`[]string{"1","2","3"}`, strs("1", "2", "3"))},
	"e/strexp":   {cv(`"e1"`, lit("e1")), cv(`"e2"`, lit("e2")), cv("[]string{}", strs())},
	expKey:       {cv(`"expert"`, lit("expert")), cv(`"developer"`, lit("developer")), cv(`"guru"`, lit("guru"))},
}

// bfsOps: the operation alphabet of the history exploration, simplest first.
func bfsOps() []op {
	var ops []op
	keys := []string{rlKey}
	for _, sp := range bfsSpecs {
		keys = append(keys, sp.key)
	}
	for _, kind := range []int{opSet, opSetDefault} {
		for _, k := range keys {
			s := samples[k]
			vals := []carrier{s.v1, s.v2, s.bad, cNil}
			if k == rlKey {
				vals = []carrier{s.v1, s.v2, cv(`"stable"`, lit("stable")), s.bad, cNil}
			}
			for _, v := range vals {
				ops = append(ops, op{kind: kind, key: k, val: v})
			}
		}
	}
	ops = append(ops, op{kind: opSave}, op{kind: opLoad}, op{kind: opLoadStrict}, op{kind: opSaveWipeLoad}, op{kind: opRestart}, op{kind: opReload},
		op{kind: opBreak}, op{kind: opRepair})
	// whole-layer replaces: all maps of at most two entries (distinct keys) over this pool
	pool := []entry{
		{"a/int", cv("float64(5)", lit(float64(5)))},
		{"a/int", cv(`"x"`, lit("x"))},
		{"b/beta", cv("float64(3)", lit(float64(3)))},
		{"s/pv", samples["s/pv"].v1},
		{"s/pv", samples["s/pv"].bad},
		{"l/arr", cv(`[]interface{}{"b","a"}`, ifc("b", "a"))},
		{"f/bool", samples["f/bool"].v1},
		{rlKey, samples[rlKey].v1},
		{rlKey, samples[rlKey].v2},
		{rlKey, samples[rlKey].bad},
		{"nope/unknown", cv("true", lit(true))},
	}
	for _, kind := range []int{opReplace, opReplaceDefault} {
		ops = append(ops, op{kind: kind})
		for i := range pool {
			ops = append(ops, op{kind: kind, entries: []entry{pool[i]}})
		}
		for i := range pool {
			for j := i + 1; j < len(pool); j++ {
				if pool[i].key != pool[j].key {
					ops = append(ops, op{kind: kind, entries: []entry{pool[i], pool[j]}})
				}
			}
		}
	}
	return ops
}

// sweepCarriers: every carrier type the API can be handed, for an option of the given spec.
func sweepCarriers(sp *spec) []carrier {
	var out []carrier
	add := func(name string, x any) { out = append(out, cv(name, lit(x))) }
	// integers: a small value, a regex/allowed/validation boundary, 10^6 (float text form changes), the +-2^53 edge
	for _, n := range []int64{0, 1, 2, 3, 5, -1, 99, 1000000, 1 << 53, -(1 << 53)} {
		add(fmtN("int64", n), n)
		add(fmtN("float64", n), float64(n))
		if n >= math.MinInt32 && n <= math.MaxInt32 {
			add(fmtN("int", n), int(n))
			add(fmtN("int32", n), int32(n))
		}
		if n >= -128 && n <= 127 {
			add(fmtN("int8", n), int8(n))
			add(fmtN("int16", n), int16(n))
			add(fmtN("float32", n), float32(n))
		}
		if n >= 0 && n <= 255 {
			add(fmtN("uint8", n), uint8(n))
			add(fmtN("uint16", n), uint16(n))
		}
		if n >= 0 && n <= math.MaxUint32 {
			add(fmtN("uint", n), uint(n))
			add(fmtN("uint32", n), uint32(n))
			add(fmtN("uint64", n), uint64(n))
		}
	}
	add("float32(1000000)", float32(1000000))
	add("float64(2.5)", 2.5)
	add("float32(0.5)", float32(0.5))
	add("float64(+Inf)", math.Inf(1))
	add("float64(NaN)", math.NaN())
	add(`json.Number("5")`, json.Number("5"))
	// strings
	for _, s := range []string{"", "a", "x", "X", "low", "high", "mid", "no!", "5", "true", "stable", "beta", "experimental", "expert", "abc\n", "e2"} {
		add("string("+quote(s)+")", s)
	}
	// booleans
	add("true", true)
	add("false", false)
	// string lists in both carriers
	for _, l := range [][]string{{}, {"a"}, {"b", "a"}, {"c"}, {"a", "d"}, {"1", "2"}, {"1", "2", "3"}, {"", "/"}} {
		l := l
		out = append(out, cv("[]string"+quoteList(l), strs(l...)))
		xs := make([]any, len(l))
		for i, e := range l {
			xs[i] = e
		}
		out = append(out, cv("[]interface{}"+quoteList(l), ifc(xs...)))
	}
	out = append(out, cv("[]string(nil)", lit([]string(nil))))
	out = append(out, cv(`[]interface{}{"a",1.0}`, ifc("a", 1.0)))
	out = append(out, cv(`[]interface{}{nil}`, ifc(nil)))
	// types that are no config value at all
	out = append(out, cv(`[]byte("low")`, func() any { return []byte("low") }))
	out = append(out, cv("map[string]interface{}{}", func() any { return map[string]interface{}{} }))
	out = append(out, cv("struct{}{}", lit(struct{}{})))
	out = append(out, cv("*string", func() any { s := "low"; return &s }))
	_ = sp
	return out
}

func fmtN(t string, n int64) string { return t + "(" + itoa(n) + ")" }

func isJSONable(x any) bool {
	switch v := x.(type) {
	case float64:
		return !math.IsNaN(v) && !math.IsInf(v, 0)
	case float32:
		return !math.IsNaN(float64(v)) && !math.IsInf(float64(v), 0)
	case map[string]interface{}, struct{}, *string, []byte, json.Number:
		return false // objects are flattened into other keys; the rest does not come out of a JSON document as such
	}
	return true
}

var _ = config.OptTypeInt
