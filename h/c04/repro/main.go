// Reproductions of the C04 findings against the real package, public API only
// (no harness, no overlay):  cd /verif && go run ./h/c04/repro
package main

import (
	"fmt"

	"github.com/safing/portbase/config"
	"github.com/safing/portbase/log"
)

func try(name string, f func()) {
	defer func() {
		if r := recover(); r != nil {
			fmt.Printf("%s: PANIC %v\n", name, r)
		}
	}()
	f()
}

func main() {
	log.SetLogLevel(log.CriticalLevel)
	must := func(err error) {
		if err != nil {
			panic(err)
		}
	}
	must(config.Register(&config.Option{Name: "n", Key: "a/int", Description: "d", OptType: config.OptTypeInt, DefaultValue: 7, ValidationRegex: `^[0-9]+$`}))
	must(config.Register(&config.Option{Name: "b", Key: "b/beta", Description: "d", OptType: config.OptTypeInt, DefaultValue: 1, ReleaseLevel: config.ReleaseLevelBeta}))
	must(config.Register(&config.Option{Name: "l", Key: "m/arr", Description: "d", OptType: config.OptTypeStringArray, DefaultValue: []string{"x"}}))
	must(config.Register(&config.Option{Name: "s", Key: "s/pv", Description: "d", OptType: config.OptTypeString, DefaultValue: "low",
		PossibleValues: []config.PossibleValue{{Name: "low", Value: "low"}, {Name: "high", Value: "high"}}}))
	aInt := config.GetAsInt("a/int", -1)
	beta := config.GetAsInt("b/beta", -1)
	arr := config.GetAsStringArray("m/arr", nil)

	// F1: an integer >= 10^6 of an int option with a regex does not survive save -> load,
	// and the same integer in its JSON carrier (float64) is refused by every setter.
	fmt.Println("F1 SetConfigOption(a/int, int64(1000000)):", config.SetConfigOption("a/int", int64(1000000)), "-> getter", aInt())
	data, _ := config.MapToJSON(map[string]interface{}{"a/int": config.GetActiveConfigValues()["a/int"]}) // what SaveConfig writes
	loaded, _ := config.JSONToMap(data)                                                                   // what loadConfig reads
	errs, _ := config.ReplaceConfig(loaded)
	fmt.Printf("F1 after save->load: %d validation error(s) %v, getter %d (want 1000000)\n", len(errs), errs, aInt())
	fmt.Println("F1 SetConfigOption(a/int, float64(1000000)):", config.SetConfigOption("a/int", float64(1000000)))

	// F2: a JSON null in a replace map (or config.json) panics.
	try("F2 ReplaceConfig({s/pv: nil})", func() {
		m, _ := config.JSONToMap([]byte(`{"s": {"pv": null}}`))
		errs, _ := config.ReplaceConfig(m)
		fmt.Println("F2 no panic, errors:", errs)
	})

	// F4: a nil []string is accepted as the empty list but is lost by save -> load.
	fmt.Println("F4 SetConfigOption(m/arr, []string(nil)):", config.SetConfigOption("m/arr", []string(nil)), "-> getter", arr())
	data, _ = config.MapToJSON(config.GetActiveConfigValues())
	loaded, _ = config.JSONToMap(data)
	errs, _ = config.ReplaceConfig(loaded)
	fmt.Printf("F4 after save->load (%s): errors %v, getter %q (want empty list)\n", string(data), errs, arr())

	// F5: the default layer of core/releaseLevel overrides the user layer in the gate, but not in the getters.
	config.ReplaceConfig(map[string]interface{}{})
	rl := config.GetAsString("core/releaseLevel", "")
	fmt.Println("F5 user: beta", config.SetConfigOption("core/releaseLevel", "beta"), config.SetConfigOption("b/beta", 42), "-> b/beta getter", beta())
	fmt.Println("F5 default: stable", config.SetDefaultConfigOption("core/releaseLevel", "stable"),
		"-> core/releaseLevel getter", rl(), "but b/beta getter", beta(), "(want 42)")

	// F3 (last: it leaves the option locked): a []byte for a string option with allowed values panics.
	try("F3 SetConfigOption(s/pv, []byte(\"low\"))", func() {
		fmt.Println("F3 no panic:", config.SetConfigOption("s/pv", []byte("low")))
	})
}
