//go:build verif

package config

import (
	"fmt"
	"sort"
	"strings"
	"sync"
	"sync/atomic"

	"github.com/tevino/abool"
)

// VerifReset puts the package back into the state of a freshly started
// process: empty registry plus the two options registered by init(), fresh
// validity flag, release and expertise level at their zero value, persistence
// configured to filePath ("" = no persistence).
func VerifReset(filePath string) {
	// A panic inside the package can leave one of its locks held (e.g.
	// NewPerspective holds optionsLock without defer); the harness is
	// single-threaded between histories, so the locks are simply replaced.
	optionsLock = sync.RWMutex{}
	validityFlagLock = sync.RWMutex{}
	loadedConfigValidationErrorsLock = sync.Mutex{}

	optionsLock.Lock()
	options = make(map[string]*Option)
	optionsLock.Unlock()

	validityFlagLock.Lock()
	validityFlag.SetTo(false)
	validityFlag = abool.NewBool(true)
	validityFlagLock.Unlock()

	releaseLevelOptionFlag.UnSet()
	expertiseLevelOptionFlag.UnSet()
	atomic.StoreInt32(releaseLevel, 0)
	atomic.StoreInt32(expertiseLevel, 0)
	registerReleaseLevelOption()
	registerExpertiseLevelOption()

	configFilePath = filePath

	loadedConfigValidationErrorsLock.Lock()
	loadedConfigValidationErrors = nil
	loadedConfigValidationErrorsLock.Unlock()
}

// VerifLoadConfig exposes loadConfig.
func VerifLoadConfig(requireValidConfig bool) error { return loadConfig(requireValidConfig) }

func verifVC(o *Option, vc *valueCache) string {
	if vc == nil {
		return "-"
	}
	return fmt.Sprintf("%#v", vc.getData(o))
}

// VerifDump returns a canonical text of the private layer state (user layer,
// default layer of every option, release level gate), used only to
// de-duplicate explored states.
func VerifDump() string {
	optionsLock.RLock()
	defer optionsLock.RUnlock()
	keys := make([]string, 0, len(options))
	for k := range options {
		keys = append(keys, k)
	}
	sort.Strings(keys)
	var sb strings.Builder
	for _, k := range keys {
		o := options[k]
		o.Lock()
		fmt.Fprintf(&sb, "%s=%s|%s;", k, verifVC(o, o.activeValue), verifVC(o, o.activeDefaultValue))
		o.Unlock()
	}
	fmt.Fprintf(&sb, "rl=%d", atomic.LoadInt32(releaseLevel))
	return sb.String()
}

// VerifReleaseLevel returns the release level gate the getters use.
func VerifReleaseLevel() int { return int(atomic.LoadInt32(releaseLevel)) }
