// Operations on the real config package and on the model, and the probes
// that compare every getter with the model after a step.
package main

import (
	"crypto/sha256"
	"encoding/hex"
	"fmt"
	"os"
	"path/filepath"
	"sort"
	"strings"

	"github.com/safing/portbase/config"

	"verif/vlib"
)

// carrier produces a fresh Go value each time (nothing is shared with the implementation).
type carrier struct {
	name string
	mk   func() any
}

func cv(name string, mk func() any) carrier { return carrier{name, mk} }

var cNil = cv("nil", func() any { return nil })

type entry struct {
	key string
	val carrier
}

const (
	opSet = iota
	opSetDefault
	opReplace
	opReplaceDefault
	opReplaceJSON        // map -> MapToJSON -> JSONToMap -> ReplaceConfig
	opReplaceDefaultJSON // same for the default layer
	opSave
	opLoad
	opLoadStrict
	opSaveWipeLoad
	opRestart // SaveConfig, new process state, register, loadConfig
	opReload  // new process state without saving first, register, loadConfig
	opBreak   // persistence fault: the directory of config.json disappears (SaveConfig and loadConfig fail)
	opRepair  // the directory (with the file as last written) is back
	opValidateValue
	opValidateConfig
	opNewPerspective
)

type op struct {
	kind    int
	key     string
	val     carrier
	entries []entry
}

func (o *op) site() string {
	switch o.kind {
	case opSet, opSetDefault:
		return "Set[Default]ConfigOption"
	case opReplace, opReplaceDefault, opReplaceJSON, opReplaceDefaultJSON:
		return "Replace[Default]Config"
	case opSave, opLoad, opLoadStrict, opSaveWipeLoad, opRestart, opReload:
		return "SaveConfig/loadConfig"
	case opBreak, opRepair:
		return "break/repair-persistence"
	}
	return "ValidateValue/ValidateConfig/NewPerspective"
}

// fn is the exact entry point.
func (o *op) fn() string {
	switch o.kind {
	case opSet:
		return "SetConfigOption"
	case opSetDefault:
		return "SetDefaultConfigOption"
	case opReplace:
		return "ReplaceConfig"
	case opReplaceDefault:
		return "ReplaceDefaultConfig"
	case opReplaceJSON:
		return "JSONToMap+ReplaceConfig"
	case opReplaceDefaultJSON:
		return "JSONToMap+ReplaceDefaultConfig"
	case opSave:
		return "SaveConfig"
	case opLoad, opLoadStrict:
		return "loadConfig"
	case opSaveWipeLoad:
		return "SaveConfig+wipe+loadConfig"
	case opRestart:
		return "SaveConfig+restart+loadConfig"
	case opReload:
		return "restart+loadConfig"
	case opBreak:
		return "break-persistence"
	case opRepair:
		return "repair-persistence"
	case opValidateValue:
		return "Option.ValidateValue"
	case opValidateConfig:
		return "ValidateConfig"
	case opNewPerspective:
		return "NewPerspective"
	}
	return "?"
}

func (o *op) clause() string {
	switch o.kind {
	case opSet, opSetDefault:
		return "single-set-rejects-or-succeeds"
	case opReplace, opReplaceDefault, opReplaceJSON, opReplaceDefaultJSON:
		return "replace-installs-valid-reports-invalid"
	case opSave, opLoad, opLoadStrict, opSaveWipeLoad, opRestart, opReload:
		return "save-load-restores-user-values"
	case opBreak, opRepair:
		return "persistence-fault-alone-changes-nothing"
	}
	return "validation-only-calls-change-nothing"
}

func (o *op) name() string {
	switch o.kind {
	case opSet, opSetDefault, opValidateValue:
		return fmt.Sprintf("%s(%s, %s)", o.fn(), o.key, o.val.name)
	case opReplace, opReplaceDefault, opReplaceJSON, opReplaceDefaultJSON, opValidateConfig, opNewPerspective:
		parts := make([]string, len(o.entries))
		for i, e := range o.entries {
			parts[i] = e.key + ": " + e.val.name
		}
		return fmt.Sprintf("%s({%s})", o.fn(), strings.Join(parts, ", "))
	case opLoadStrict:
		return "loadConfig(strict)"
	}
	return o.fn()
}

// finding is a violation candidate; fatal means the history cannot be continued.
type finding struct {
	clause, site, disc, detail string
}

type getter struct {
	key, api string
	get      func() *mv
}

type fbGetter struct {
	key, api string
	check    func() string // "" if the fallback was returned
}

type runner struct {
	specs  []spec
	m      *model
	root   string // private directory of this runner; config.json lives in root/data
	path   string
	faulty bool     // persistence was broken when the current operation started
	pre    []getter // created at the start, called after every step
	lazy   []getter // created at the start, called only after the last step
	preFB  []fbGetter
	perspA *config.Perspective
	perspB *config.Perspective
	steps  int64
}

var fbArr = []string{"FB"}

func typedGetters(key string, typ config.OptionType, tag string) []getter {
	switch typ {
	case config.OptTypeString:
		p, c := config.GetAsString(key, "FB"), config.Concurrent.GetAsString(key, "FB")
		return []getter{
			{key, "GetAsString/" + tag, func() *mv { return &mv{t: typ, s: p()} }},
			{key, "Concurrent.GetAsString/" + tag, func() *mv { return &mv{t: typ, s: c()} }},
		}
	case config.OptTypeStringArray:
		p, c := config.GetAsStringArray(key, fbArr), config.Concurrent.GetAsStringArray(key, fbArr)
		return []getter{
			{key, "GetAsStringArray/" + tag, func() *mv { return &mv{t: typ, a: append([]string{}, p()...)} }},
			{key, "Concurrent.GetAsStringArray/" + tag, func() *mv { return &mv{t: typ, a: append([]string{}, c()...)} }},
		}
	case config.OptTypeInt:
		p, c := config.GetAsInt(key, -777), config.Concurrent.GetAsInt(key, -777)
		return []getter{
			{key, "GetAsInt/" + tag, func() *mv { return &mv{t: typ, i: p()} }},
			{key, "Concurrent.GetAsInt/" + tag, func() *mv { return &mv{t: typ, i: c()} }},
		}
	case config.OptTypeBool:
		p, c := config.GetAsBool(key, false), config.Concurrent.GetAsBool(key, false)
		return []getter{
			{key, "GetAsBool/" + tag, func() *mv { return &mv{t: typ, b: p()} }},
			{key, "Concurrent.GetAsBool/" + tag, func() *mv { return &mv{t: typ, b: c()} }},
		}
	}
	return nil
}

// fallbackGetters: getters that must return their fallback (wrong type, or unknown name).
func fallbackGetters(key string, typ config.OptionType, tag string) []fbGetter {
	var out []fbGetter
	str := func(api string, f config.StringOption) {
		out = append(out, fbGetter{key, api + "/" + tag, func() string {
			if g := f(); g != "FB" {
				return fmt.Sprintf("%q", g)
			}
			return ""
		}})
	}
	arr := func(api string, f config.StringArrayOption) {
		out = append(out, fbGetter{key, api + "/" + tag, func() string {
			if g := f(); len(g) != 1 || g[0] != "FB" {
				return fmt.Sprintf("%q", g)
			}
			return ""
		}})
	}
	num := func(api string, f config.IntOption) {
		out = append(out, fbGetter{key, api + "/" + tag, func() string {
			if g := f(); g != -777 {
				return fmt.Sprint(g)
			}
			return ""
		}})
	}
	boo := func(api string, ft, ff config.BoolOption) {
		out = append(out, fbGetter{key, api + "/" + tag, func() string {
			if g1, g2 := ft(), ff(); !g1 || g2 {
				return fmt.Sprintf("fallback true->%v, fallback false->%v", g1, g2)
			}
			return ""
		}})
	}
	if typ != config.OptTypeString {
		str("GetAsString", config.GetAsString(key, "FB"))
		if typ == config.OptTypeInt || typ == 0 {
			str("Concurrent.GetAsString", config.Concurrent.GetAsString(key, "FB"))
		}
	}
	if typ != config.OptTypeStringArray {
		arr("GetAsStringArray", config.GetAsStringArray(key, fbArr))
		if typ == config.OptTypeBool {
			arr("Concurrent.GetAsStringArray", config.Concurrent.GetAsStringArray(key, fbArr))
		}
	}
	if typ != config.OptTypeInt {
		num("GetAsInt", config.GetAsInt(key, -777))
		if typ == config.OptTypeString {
			num("Concurrent.GetAsInt", config.Concurrent.GetAsInt(key, -777))
		}
	}
	if typ != config.OptTypeBool {
		boo("GetAsBool", config.GetAsBool(key, true), config.GetAsBool(key, false))
		if typ == config.OptTypeStringArray {
			boo("Concurrent.GetAsBool", config.Concurrent.GetAsBool(key, true), config.Concurrent.GetAsBool(key, false))
		}
	}
	return out
}

var unknownNames = []string{"nope/unknown", "a", "a/int/x", ""}

func (r *runner) allGetters(tag string) []getter {
	var out []getter
	for _, k := range r.m.keys {
		out = append(out, typedGetters(k, r.m.specs[k].typ, tag)...)
	}
	return out
}

func (r *runner) allFallbackGetters(tag string) []fbGetter {
	var out []fbGetter
	for _, k := range r.m.keys {
		out = append(out, fallbackGetters(k, r.m.specs[k].typ, tag)...)
	}
	for _, n := range unknownNames {
		out = append(out, fallbackGetters(n, 0, tag)...)
	}
	return out
}

func (r *runner) registerAll() {
	config.VerifReset(r.path)
	for i := range r.specs {
		if err := config.Register(r.specs[i].toOption()); err != nil {
			panic(fmt.Sprintf("harness: cannot register %s: %v", r.specs[i].key, err))
		}
	}
}

func (r *runner) makeGetters() {
	r.pre = r.allGetters("created-before")
	r.lazy = r.allGetters("created-at-start-first-called-at-end")
	r.preFB = r.allFallbackGetters("created-before")
	r.perspA, _ = config.NewPerspective(r.perspMap(false))
	r.perspB, _ = config.NewPerspective(r.perspMap(true))
}

// reset: fresh process state, fresh model, no file.
func (r *runner) reset() {
	// cheap path: undo a fault of the previous history, delete the file
	if r.m != nil && r.m.broken {
		_ = os.Rename(r.offDir(), r.dataDir())
	}
	if err := os.Remove(r.path); err != nil && !os.IsNotExist(err) || r.m == nil {
		_ = os.RemoveAll(r.dataDir())
		_ = os.RemoveAll(r.offDir())
		if err := os.MkdirAll(r.dataDir(), 0o755); err != nil {
			panic(err)
		}
	} else if _, err := os.Stat(r.dataDir()); err != nil {
		_ = os.RemoveAll(r.offDir())
		if err := os.MkdirAll(r.dataDir(), 0o755); err != nil {
			panic(err)
		}
	}
	r.registerAll()
	r.m = newModel(r.specs)
	r.makeGetters()
}

func (r *runner) dataDir() string { return filepath.Dir(r.path) }
func (r *runner) offDir() string  { return filepath.Join(r.root, "data.off") }

// siteOf: operations run while saving fails get their own site, so that a
// defect that needs the fault has its own signature.
func (r *runner) siteOf(o *op) string {
	if r.faulty {
		switch o.kind {
		case opBreak, opRepair:
		default:
			return o.site() + "@save-fails"
		}
	}
	return o.site()
}

// readStored returns config.json as last written, also while the fault hides it.
func (r *runner) readStored() ([]byte, error) {
	if b, err := os.ReadFile(r.path); err == nil {
		return b, nil
	}
	return os.ReadFile(filepath.Join(r.offDir(), "config.json"))
}

// perspMap: A = every option with its second valid sample; B = first valid samples, one invalid entry and an unknown key.
func (r *runner) perspMap(b bool) map[string]interface{} {
	mp := map[string]interface{}{}
	for i := range r.specs {
		sp := &r.specs[i]
		s := samples[sp.key]
		if !b {
			mp[sp.key] = s.v2.mk()
		} else if i == 0 {
			mp[sp.key] = s.bad.mk()
		} else {
			mp[sp.key] = s.v1.mk()
		}
	}
	if b {
		mp["nope/unknown"] = true
	} else {
		mp[rlKey] = "experimental" // a perspective's own release level entry must not open the gate
	}
	return mp
}

func errWord(err error, wantErr bool) string {
	if wantErr && err == nil {
		return "ok-instead-of-error"
	}
	if !wantErr && err != nil {
		return "error-instead-of-ok"
	}
	return ""
}

// panicKind is a coarse, value-free class of a panic message.
func panicKind(p any) string {
	msg := fmt.Sprint(p)
	switch {
	case strings.Contains(msg, "uncomparable"):
		return "uncomparable-type"
	case strings.Contains(msg, "nil type"), strings.Contains(msg, "nil pointer"), strings.Contains(msg, "nil map"):
		return "nil"
	case strings.Contains(msg, "out of range"):
		return "out-of-range"
	case strings.Contains(msg, "interface conversion"):
		return "type-assertion"
	}
	return "other"
}

func buildMap(es []entry) map[string]interface{} {
	mp := map[string]interface{}{}
	for _, e := range es {
		mp[e.key] = e.val.mk()
	}
	return mp
}

// apply runs one operation on the implementation and on the model and checks
// the operation's own results. outcome is a coarse class for the evidence.
func (r *runner) apply(o *op) (f *finding, outcome string) {
	r.steps++
	m := r.m
	r.faulty = m.broken
	fail := func(disc, format string, a ...any) (*finding, string) {
		return &finding{o.clause(), r.siteOf(o), disc, fmt.Sprintf(format, a...)}, "violation"
	}
	panicked := func(p any, stack string) (*finding, string) {
		return &finding{o.clause(), r.siteOf(o), "panic:" + vlib.PanicSite(stack) + ":" + panicKind(p), fmt.Sprintf("%s panicked: %v", o.name(), p)}, "panic"
	}
	switch o.kind {
	case opSet, opSetDefault:
		var err error
		p, st := vlib.Catch(func() {
			if o.kind == opSet {
				err = config.SetConfigOption(o.key, o.val.mk())
			} else {
				err = config.SetDefaultConfigOption(o.key, o.val.mk())
			}
		})
		if p != nil {
			return panicked(p, st)
		}
		l := m.user
		if o.kind == opSetDefault {
			l = m.def
		}
		saved := func() {
			if o.kind == opSet {
				m.file = m.user.clone()
			}
		}
		sp := m.specs[o.key]
		raw := o.val.mk()
		switch {
		case sp == nil:
			if w := errWord(err, true); w != "" {
				return fail(w, "%s on an unregistered key returned no error", o.name())
			}
			return nil, o.fn() + ":unknown-key-error"
		}
		if sp != nil && m.broken && o.kind == opSet {
			// Saving fails. Whatever the call returns, the operation must have
			// taken effect everywhere or nowhere: which of the two is read from
			// the implementation's own user layer; the probes then require
			// every getter to agree with it.
			var want *mv
			if raw != nil {
				v, cls := classify(sp, raw)
				if cls == clsInvalid {
					if w := errWord(err, true); w != "" {
						return fail("invalid-value-accepted", "%s: the value violates the option's constraints but no error was returned", o.name())
					}
					return nil, o.fn() + ":save-fails:rejected"
				}
				want = v
			}
			var uv any
			if p, st := vlib.Catch(func() {
				opt, gerr := config.GetOption(o.key)
				if gerr != nil {
					panic(gerr)
				}
				uv = opt.UserValue()
			}); p != nil {
				return panicked(p, st)
			}
			var got *mv
			if uv != nil {
				got, _ = convert(uv)
			}
			old := l[o.key]
			same := func(a, b *mv) bool { return (a == nil && b == nil) || (a != nil && b != nil && a.equal(b)) }
			switch {
			case same(got, want):
				if want == nil {
					delete(l, o.key)
				} else {
					l[o.key] = want
				}
				return nil, fmt.Sprintf("%s:save-fails:took-effect,error=%v", o.fn(), err != nil)
			case same(got, old):
				return nil, fmt.Sprintf("%s:save-fails:no-effect,error=%v", o.fn(), err != nil)
			}
			return fail("user-layer-neither-old-nor-new", "%s while saving fails: UserValue()=%#v, before %s, requested %s", o.name(), uv, old, want)
		}
		switch {
		case sp == nil: // handled above
		case raw == nil:
			if w := errWord(err, false); w != "" {
				return fail(w, "%s (unset) returned error %v", o.name(), err)
			}
			delete(l, o.key)
			saved()
			return nil, o.fn() + ":unset"
		}
		v, cls := classify(sp, raw)
		switch cls {
		case clsValid:
			if w := errWord(err, false); w != "" {
				return fail("valid-value-refused", "%s: the value is valid for the option (type, regex, allowed values, validation function) but was rejected: %v", o.name(), err)
			}
			l[o.key] = v
			saved()
			return nil, o.fn() + ":accepted"
		case clsInvalid:
			if w := errWord(err, true); w != "" {
				return fail("invalid-value-accepted", "%s: the value violates the option's constraints but no error was returned", o.name())
			}
			return nil, o.fn() + ":rejected"
		default:
			if err == nil {
				if v == nil {
					return &finding{"harness", o.site(), "unmodelled", "accepted a value the model cannot represent"}, "unmodelled"
				}
				l[o.key] = v
				saved()
				return nil, o.fn() + ":undecided-accepted"
			}
			return nil, o.fn() + ":undecided-rejected"
		}
	case opReplace, opReplaceDefault, opReplaceJSON, opReplaceDefaultJSON:
		var verrs []*config.ValidationError
		var convErr error
		var mp map[string]interface{}
		p, st := vlib.Catch(func() {
			mp = buildMap(o.entries)
			if o.kind == opReplaceJSON || o.kind == opReplaceDefaultJSON {
				var data []byte
				data, convErr = config.MapToJSON(mp)
				if convErr == nil {
					mp, convErr = config.JSONToMap(data)
				}
				if convErr != nil {
					return
				}
			}
			if o.kind == opReplace || o.kind == opReplaceJSON {
				verrs, _ = config.ReplaceConfig(mp)
			} else {
				verrs, _ = config.ReplaceDefaultConfig(mp)
			}
		})
		if p != nil {
			return panicked(p, st)
		}
		if convErr != nil {
			return fail("error-instead-of-ok", "%s: JSON conversion failed: %v", o.name(), convErr)
		}
		reported := map[string]bool{}
		for _, ve := range verrs {
			if ve == nil || ve.Option == nil {
				reported["<error without option>"] = true
			} else {
				reported[ve.Option.Key] = true
			}
		}
		nl := layer{}
		mayReport := map[string]bool{}
		for _, e := range o.entries {
			sp := m.specs[e.key]
			if sp == nil {
				continue
			}
			raw, present := mp[e.key] // what was actually handed to the replace call (JSON-decoded for the JSON routes)
			if !present {
				continue
			}
			if raw == nil { // a null entry: must not be installed; reporting it is optional
				mayReport[e.key] = true
				continue
			}
			v, cls := classify(sp, raw)
			switch cls {
			case clsValid:
				if reported[e.key] {
					return fail("valid-value-refused", "%s: entry %s is valid but was reported as invalid", o.name(), e.key)
				}
				nl[e.key] = v
			case clsInvalid:
				if !reported[e.key] {
					return fail("invalid-value-accepted", "%s: entry %s is invalid but was not reported", o.name(), e.key)
				}
				mayReport[e.key] = true
			default:
				mayReport[e.key] = true
				if !reported[e.key] && v != nil {
					nl[e.key] = v
				}
			}
		}
		for k := range reported {
			if !mayReport[k] {
				return fail("spurious-report", "%s: reported %s which is not an invalid entry of the map", o.name(), k)
			}
		}
		if o.kind == opReplace || o.kind == opReplaceJSON {
			m.user = nl
		} else {
			m.def = nl
		}
		return nil, fmt.Sprintf("%s:installed=%d,reported=%d", o.fn(), len(nl), len(reported))
	case opSave:
		var err error
		if p, st := vlib.Catch(func() { err = config.SaveConfig() }); p != nil {
			return panicked(p, st)
		}
		if m.broken {
			return nil, fmt.Sprintf("SaveConfig:save-fails:error=%v", err != nil) // nothing is written, nothing may change (probed)
		}
		if err != nil {
			return fail("error-instead-of-ok", "SaveConfig: %v", err)
		}
		m.file = m.user.clone()
		return nil, "SaveConfig:ok"
	case opLoad, opLoadStrict:
		var err error
		if p, st := vlib.Catch(func() { err = config.VerifLoadConfig(o.kind == opLoadStrict) }); p != nil {
			return panicked(p, st)
		}
		if m.broken {
			return nil, fmt.Sprintf("loadConfig:unreadable:error=%v", err != nil) // nothing can be read: nothing may change (probed)
		}
		if m.file == nil {
			return nil, "loadConfig:no-file" // nothing saved yet: nothing may change (probed)
		}
		if err != nil {
			return fail("error-instead-of-ok", "%s of a file written by SaveConfig failed: %v (file: %s)", o.name(), err, r.fileText())
		}
		m.user = m.file.clone()
		return nil, "loadConfig:loaded"
	case opSaveWipeLoad, opRestart, opReload:
		var err error
		stage := ""
		p, st := vlib.Catch(func() {
			if o.kind != opReload {
				stage = "SaveConfig"
				if err = config.SaveConfig(); err != nil && (!m.broken || o.kind == opSaveWipeLoad) {
					return // save+wipe+load stops when saving fails; a restart happens anyway
				}
			}
			if o.kind == opSaveWipeLoad {
				stage = "ReplaceConfig({})"
				config.ReplaceConfig(map[string]interface{}{})
			} else {
				stage = "restart"
				r.registerAll()
				r.makeGetters()
			}
			stage = "loadConfig"
			err = config.VerifLoadConfig(false)
		})
		if p != nil {
			return panicked(p, st)
		}
		if m.broken {
			// Saving fails and nothing can be read: save+wipe+load must stop
			// at the failed save (or load nothing after the wipe); a new
			// process starts with empty layers.
			if o.kind == opSaveWipeLoad {
				if stage != "SaveConfig" {
					m.user = layer{}
				}
				return nil, o.fn() + ":save-fails:stopped-at-" + stage
			}
			m.user, m.def = layer{}, layer{}
			return nil, o.fn() + ":save-fails:empty-start"
		}
		if o.kind != opReload {
			m.file = m.user.clone()
		}
		if o.kind != opSaveWipeLoad {
			m.def = layer{}
		}
		if m.file == nil {
			m.user = layer{}
			return nil, o.fn() + ":no-file"
		}
		if err != nil {
			return fail("error-instead-of-ok", "%s failed at %s: %v (file: %s)", o.name(), stage, err, r.fileText())
		}
		m.user = m.file.clone()
		return nil, o.fn() + ":ok"
	case opBreak:
		if m.broken {
			return nil, "break-persistence:already-broken"
		}
		if err := os.Rename(r.dataDir(), r.offDir()); err != nil {
			return &finding{"harness", "break-persistence", "rename-failed", err.Error()}, "harness-error"
		}
		m.broken = true
		return nil, "break-persistence"
	case opRepair:
		if !m.broken {
			return nil, "repair-persistence:not-broken"
		}
		if err := os.Rename(r.offDir(), r.dataDir()); err != nil {
			return &finding{"harness", "repair-persistence", "rename-failed", err.Error()}, "harness-error"
		}
		m.broken = false
		return nil, "repair-persistence"
	case opValidateValue:
		var err error
		opt, gerr := config.GetOption(o.key)
		if gerr != nil {
			return nil, "ValidateValue:unknown"
		}
		if p, st := vlib.Catch(func() { err = opt.ValidateValue(o.val.mk()) }); p != nil {
			return panicked(p, st)
		}
		_, cls := classify(m.specs[o.key], o.val.mk())
		if cls == clsValid && err != nil {
			return fail("valid-value-refused", "%s: valid value refused: %v", o.name(), err)
		}
		if cls == clsInvalid && err == nil {
			return fail("invalid-value-accepted", "%s: invalid value passed validation", o.name())
		}
		return nil, fmt.Sprintf("ValidateValue:err=%v", err != nil)
	case opValidateConfig:
		var verrs []*config.ValidationError
		if p, st := vlib.Catch(func() { verrs, _, _ = config.ValidateConfig(buildMap(o.entries)) }); p != nil {
			return panicked(p, st)
		}
		reported := map[string]bool{}
		for _, ve := range verrs {
			if ve != nil && ve.Option != nil {
				reported[ve.Option.Key] = true
			}
		}
		for _, e := range o.entries {
			sp := m.specs[e.key]
			if sp == nil || e.val.mk() == nil {
				continue
			}
			_, cls := classify(sp, e.val.mk())
			if cls == clsValid && reported[e.key] {
				return fail("valid-value-refused", "%s: entry %s is valid but was reported", o.name(), e.key)
			}
			if cls == clsInvalid && !reported[e.key] {
				return fail("invalid-value-accepted", "%s: entry %s is invalid but was not reported", o.name(), e.key)
			}
		}
		return nil, fmt.Sprintf("ValidateConfig:reported=%d", len(reported))
	case opNewPerspective:
		if p, st := vlib.Catch(func() { _, _ = config.NewPerspective(buildMap(o.entries)) }); p != nil {
			return panicked(p, st)
		}
		return nil, "NewPerspective"
	}
	return nil, "?"
}

func (r *runner) fileText() string {
	b, err := r.readStored()
	if err != nil {
		return "<" + err.Error() + ">"
	}
	return strings.Join(strings.Fields(string(b)), " ")
}

// touch calls the getters created at the start so that they hold the cache of the current state.
func (r *runner) touch() {
	for _, g := range r.pre {
		_ = g.get()
	}
	for _, g := range r.preFB {
		_ = g.check()
	}
}

var srcWord = map[string]string{"user": "user-layer-value", "default": "default-layer-value", "registered": "registered-default"}

func sourceWord(m *model, key string, got *mv) string {
	switch {
	case m.user[key] != nil && m.user[key].equal(got):
		return "user-layer-value"
	case m.def[key] != nil && m.def[key].equal(got):
		return "default-layer-value"
	case m.specs[key].defMV.equal(got):
		return "registered-default"
	}
	return "other-value"
}

// probe compares everything observable with the model. last: also call the lazy getters.
func (r *runner) probe(o *op, last bool) *finding {
	m := r.m
	implRL := config.VerifReleaseLevel()
	clause, site, opname := "initial-state", "Register", "(no operation)"
	if o != nil {
		clause, site, opname = o.clause(), r.siteOf(o), o.name()
	}
	// gateFinding: the implementation's gate and the effective release-level setting decide differently for this option.
	gateFinding := func(sp *spec, api, got string) *finding {
		gi, gm := int(sp.level) <= implRL, m.enabled(sp)
		if gi == gm {
			return nil
		}
		w := "option-disabled-instead-of-enabled"
		if gi {
			w = "option-enabled-instead-of-disabled"
		}
		return &finding{"release-level-gate", "core/releaseLevel", w, fmt.Sprintf(
			"after %s: %s of %s (release level %d) returned %s; effective release-level setting is %d (user layer %s, default layer %s) but the getters gate on %d; model %s",
			opname, api, sp.key, sp.level, got, m.effRL(), m.user[rlKey], m.def[rlKey], implRL, m)}
	}
	sets := [][]getter{r.allGetters("created-after"), r.pre}
	if last {
		sets = append(sets, r.lazy)
	}
	for _, set := range sets {
		for _, g := range set {
			got := g.get()
			want, src := m.effective(g.key)
			if got.equal(want) {
				continue
			}
			sp := m.specs[g.key]
			if f := gateFinding(sp, g.api, got.String()); f != nil {
				return f
			}
			return &finding{clause, site, fmt.Sprintf("getter-returns-%s-instead-of-%s", sourceWord(m, g.key, got), srcWord[src]),
				fmt.Sprintf("after %s: %s(%s) = %s, expected %s (from the %s layer); model %s", opname, g.api, g.key, got, want, src, m)}
		}
	}
	for _, set := range [][]fbGetter{r.allFallbackGetters("created-after"), r.preFB} {
		for _, g := range set {
			if d := g.check(); d != "" {
				return &finding{"getter-fallback-on-wrong-type-or-unknown", strings.SplitN(g.api, "/", 2)[0], "not-the-fallback",
					fmt.Sprintf("after %s: %s(%q) must return its fallback argument, returned %s", opname, g.api, g.key, d)}
			}
		}
	}
	// Option.UserValue / IsSetByUser
	for _, k := range m.keys {
		opt, err := config.GetOption(k)
		if err != nil {
			return &finding{clause, "GetOption", "registered-option-missing", k}
		}
		uv := opt.UserValue()
		isSet := opt.IsSetByUser()
		want := m.user[k]
		var got *mv
		if uv != nil {
			got, _ = convert(uv)
		}
		if (want == nil) != (uv == nil) || isSet != (want != nil) || (want != nil && !want.equal(got)) {
			return &finding{clause, site, "user-value-differs",
				fmt.Sprintf("after %s: option %s UserValue()=%#v IsSetByUser()=%v, model user layer has %s; model %s; file %s", opname, k, uv, isSet, want, m, r.fileText())}
		}
	}
	// GetActiveConfigValues
	act := config.GetActiveConfigValues()
	for _, k := range m.keys {
		sp := m.specs[k]
		raw, has := act[k]
		wantHas := m.user[k] != nil && m.enabled(sp)
		var got *mv
		if has {
			got, _ = convert(raw)
		}
		if has != wantHas || (has && !m.user[k].equal(got)) {
			if f := gateFinding(sp, "GetActiveConfigValues", fmt.Sprintf("present=%v", has)); f != nil {
				return f
			}
			return &finding{clause, site, "active-values-differ",
				fmt.Sprintf("after %s: GetActiveConfigValues()[%s] = %#v (present %v), model: user value %s, enabled %v", opname, k, raw, has, m.user[k], m.enabled(sp))}
		}
	}
	if len(act) > len(m.keys) {
		return &finding{clause, site, "active-values-differ", "GetActiveConfigValues returned unregistered keys"}
	}
	// Perspectives: created before the history and now
	pa, _ := config.NewPerspective(r.perspMap(false))
	pb, _ := config.NewPerspective(r.perspMap(true))
	for pi, p := range []*config.Perspective{r.perspA, r.perspB, pa, pb} {
		if p == nil {
			return &finding{"perspective", "NewPerspective", "nil-perspective", "NewPerspective returned nil"}
		}
		mp := r.perspMap(pi%2 == 1)
		for _, k := range m.keys {
			sp := m.specs[k]
			var want *mv
			if raw, ok := mp[k]; ok && raw != nil {
				if v, cls := classify(sp, raw); cls == clsValid {
					want = v
				}
			}
			var got *mv
			var ok bool
			switch sp.typ {
			case config.OptTypeString:
				var s string
				if s, ok = p.GetAsString(k); ok {
					got = &mv{t: sp.typ, s: s}
				}
			case config.OptTypeStringArray:
				var a []string
				if a, ok = p.GetAsStringArray(k); ok {
					got = &mv{t: sp.typ, a: a}
				}
			case config.OptTypeInt:
				var i int64
				if i, ok = p.GetAsInt(k); ok {
					got = &mv{t: sp.typ, i: i}
				}
			case config.OptTypeBool:
				var b bool
				if b, ok = p.GetAsBool(k); ok {
					got = &mv{t: sp.typ, b: b}
				}
			}
			wantOK := want != nil && m.enabled(sp)
			if ok != wantOK || (ok && !want.equal(got)) || p.Has(k) != wantOK {
				if want != nil {
					if f := gateFinding(sp, "Perspective getter", fmt.Sprintf("ok=%v", ok)); f != nil {
						return f
					}
				}
				return &finding{"perspective", "Perspective.GetAs*", "perspective-value-differs",
					fmt.Sprintf("after %s: perspective %d getter for %s returned (%s, %v), Has=%v; expected value %s, available %v", opname, pi, k, got, ok, p.Has(k), want, wantOK)}
			}
		}
		// wrong type and unknown names
		if _, ok := p.GetAsInt("s/pv"); ok {
			return &finding{"getter-fallback-on-wrong-type-or-unknown", "Perspective.GetAs*", "not-the-fallback", "Perspective.GetAsInt on a string option reported ok"}
		}
		if _, ok := p.GetAsString("nope/unknown"); ok || p.Has("nope/unknown") {
			return &finding{"getter-fallback-on-wrong-type-or-unknown", "Perspective.GetAs*", "not-the-fallback", "Perspective getter on an unknown option reported ok"}
		}
	}
	return nil
}

// stateKey: private implementation state, file bytes and model state.
func (r *runner) stateKey() string {
	fileKey := "nofile"
	if b, err := r.readStored(); err == nil {
		h := sha256.Sum256(b)
		fileKey = hex.EncodeToString(h[:8])
	}
	return config.VerifDump() + "#" + fileKey + "#" + r.m.String()
}

// nontrivial: the layering or the gate decision is actually exercised in this state.
func (r *runner) nontrivial() bool {
	m := r.m
	for _, k := range m.keys {
		if u, d := m.user[k], m.def[k]; u != nil && d != nil && !u.equal(d) {
			return true
		}
		if m.user[k] != nil && m.specs[k].level > 0 {
			return true
		}
	}
	return false
}

func sortedKeys(m map[string]int64) []string {
	out := make([]string, 0, len(m))
	for k := range m {
		out = append(out, k)
	}
	sort.Strings(out)
	return out
}
