// C08: the stored-record format round-trips and its decoder is total.
// Engine Q, depth-1 case (pure input enumeration): every record of a finite
// record domain is serialised with the real MarshalRecord and parsed back with
// the real NewRawWrapper (and Unwrap for typed records); every byte string of
// several finite families (all strings of length <= 3, all short meta sections
// in every dsd format, every truncation / substitution / length-field
// replacement of valid encodings) is fed to NewRawWrapper. The reference model
// is a textbook description of the wire layout
//
//	0x01 | varint(len(block)) block | [format varint | payload]      (block = 'G' + 34 bytes little endian)
//
// written without portbase code; it classifies inputs (where does a textbook
// decoder stop, is the claimed block length covered by the input, is the input
// the canonical image of a record) and says which fields a canonical input
// carries.
package main

import (
	"bytes"
	"crypto/sha256"
	"encoding/hex"
	"encoding/json"
	"fmt"
	"math"
	"reflect"
	"strconv"
	"sync"
	"sync/atomic"
	"time"
	"unsafe"

	"github.com/fxamacker/cbor/v2"
	"github.com/ghodss/yaml"
	"github.com/vmihailenco/msgpack/v5"

	"github.com/safing/portbase/database/record"
	"github.com/safing/portbase/formats/dsd"

	"verif/vlib"
)

// ---------- reference model ----------

func refPack(n uint64) []byte {
	var out []byte
	for {
		b := byte(n & 0x7f)
		n >>= 7
		if n != 0 {
			out = append(out, b|0x80)
		} else {
			return append(out, b)
		}
	}
}

// refDecode: textbook varint decode of a prefix of b. st 0 ok, 1 truncated, 2 exceeds 64 bit.
func refDecode(b []byte) (v uint64, consumed int, st int) {
	over := false
	shift := uint(0)
	for i, x := range b {
		g := uint64(x & 0x7f)
		if g != 0 {
			if shift >= 64 || (g<<shift)>>shift != g {
				over = true
			} else {
				v |= g << shift
			}
		}
		if x < 0x80 {
			if over {
				return 0, i + 1, 2
			}
			return v, i + 1, 0
		}
		shift += 7
	}
	return 0, 0, 1
}

// metaV is the value of the six metadata fields.
type metaV struct {
	C      int64 `json:"created"`
	M      int64 `json:"modified"`
	E      int64 `json:"expires"`
	D      int64 `json:"deleted"`
	Secret bool  `json:"secret"`
	Crown  bool  `json:"crownjewel"`
}

func (m metaV) deleted() bool { return m.D > 0 }

func (m metaV) build() *record.Meta {
	r := &record.Meta{Created: m.C, Modified: m.M, Expires: m.E, Deleted: m.D}
	if m.Secret {
		r.MakeSecret()
	}
	if m.Crown {
		r.MakeCrownJewel()
	}
	return r
}

// readMeta observes the six fields through the public API only: the two
// private flags are exactly what CheckPermission reports.
func readMeta(m *record.Meta) metaV {
	return metaV{C: m.Created, M: m.Modified, E: m.Expires, D: m.Deleted,
		Secret: !m.CheckPermission(true, false), Crown: !m.CheckPermission(false, true)}
}

func le64(v int64) []byte {
	b := make([]byte, 8)
	for i := 0; i < 8; i++ {
		b[i] = byte(uint64(v) >> (8 * uint(i)))
	}
	return b
}

func b2b(b bool) byte {
	if b {
		return 1
	}
	return 0
}

// refMetaBlock is the 35-byte meta block of the wire layout.
func refMetaBlock(m metaV) []byte {
	out := []byte{71}
	out = append(out, le64(m.C)...)
	out = append(out, le64(m.M)...)
	out = append(out, le64(m.E)...)
	out = append(out, le64(m.D)...)
	return append(out, b2b(m.Secret), b2b(m.Crown))
}

// refMarshal is the wire layout of a wrapped record (format as a varint).
func refMarshal(m metaV, format uint8, payload []byte) []byte {
	out := []byte{1}
	blk := refMetaBlock(m)
	out = append(out, refPack(uint64(len(blk)))...)
	out = append(out, blk...)
	if m.deleted() {
		return out
	}
	out = append(out, refPack(uint64(format))...)
	return append(out, payload...)
}

// refRes is what the textbook decoder says about an input.
type refRes struct {
	stage         string // where the textbook decoder stops / what the input is
	reachedMeta   bool   // version 1 and a block covered by the input: the meta decoder is reached
	lengthExceeds bool   // well-formed block length that claims more bytes than present
	canonical     bool   // input has exactly the canonical layout; the fields follow
	meta          metaV
	format        uint8
	data          []byte
}

func refParse(b []byte) (r refRes) {
	v, n, st := refDecode(b)
	switch {
	case st == 1:
		r.stage = "version-truncated"
		return
	case st == 2 || v > 255:
		r.stage = "version-too-large"
		return
	case v != 1:
		r.stage = "version-not-1"
		return
	}
	canon := n == 1
	rest := b[n:]
	l, k, st := refDecode(rest)
	switch {
	case st == 1:
		r.stage = "blocklen-truncated"
		return
	case st == 2:
		r.stage = "blocklen-over-64bit"
		return
	case l > uint64(len(rest)-k):
		r.stage = "blocklen-exceeds-input"
		r.lengthExceeds = true
		return
	}
	r.reachedMeta = true
	blk := rest[k : k+int(l)]
	rest = rest[k+int(l):]
	canon = canon && k == 1
	if len(blk) != 35 || blk[0] != 71 {
		switch {
		case len(blk) == 0:
			r.stage = "meta-empty"
		case blk[0] == 71:
			r.stage = "meta-gencode-wrong-size"
		default:
			r.stage = "meta-other-format"
		}
		return
	}
	if blk[33] > 1 || blk[34] > 1 || !canon {
		r.stage = "meta-gencode-noncanonical"
		return
	}
	get := func(o int) int64 {
		var u uint64
		for i := 0; i < 8; i++ {
			u |= uint64(blk[1+o+i]) << (8 * uint(i))
		}
		return int64(u)
	}
	r.meta = metaV{C: get(0), M: get(8), E: get(16), D: get(24), Secret: blk[33] == 1, Crown: blk[34] == 1}
	if r.meta.deleted() {
		if len(rest) != 0 {
			r.stage = "deleted-with-trailing-bytes"
			return
		}
		r.stage = "canonical-deleted"
		r.canonical = true
		r.format = dsd.RAW
		return
	}
	f, fn, st := refDecode(rest)
	if st != 0 || f > 255 || fn != len(refPack(f)) {
		r.stage = "format-missing-or-invalid"
		return
	}
	r.stage = "canonical-live"
	r.canonical = true
	r.format = uint8(f)
	r.data = rest[fn:]
	return
}

// ---------- harness schema (typed records) ----------

// Sub is a nested struct of the harness schema.
type Sub struct {
	A string
	B int64
}

// Payload holds the exported fields of the typed record.
type Payload struct {
	S      string
	I      int64
	U      uint64
	I8     int8
	U16    uint16
	F      float64
	B      bool
	Bytes  []byte
	Strs   []string
	M      map[string]int64
	Sub    Sub
	P      *Sub
	Tagged string `json:"tagged_name,omitempty"`
	// untyped positions
	Any     interface{}
	AnyMap  map[string]interface{}
	AnyList []interface{}
}

// untypedValues are the values placed into the untyped positions. The first
// group is written in the Go types encoding/json documents for untyped
// positions (float64, string, bool, nil, []interface{}, map[string]interface{}),
// so "equals the original" is plain DeepEqual; the second group are Go
// integers, which the documented decoder gives back as the nearest float64.
func untypedValues() []interface{} {
	return []interface{}{
		float64(0), float64(1), float64(-1), float64(1 << 53), float64(1<<53 - 1), -float64(1 << 53), 1.5, -2.25, 1e300, 5e-324,
		"", "s", "12", true, false, nil,
		[]interface{}{}, map[string]interface{}{},
		[]interface{}{float64(2), "x", nil, false, []interface{}{float64(-7)}, map[string]interface{}{"d": 0.5}},
		map[string]interface{}{"n": float64(1), "neg": float64(-3), "big": float64(1 << 53), "f": 0.25, "s": "v", "b": true, "nil": nil,
			"l": []interface{}{float64(0), 1.75}, "m": map[string]interface{}{"deep": float64(42)}},
		int(7), int64(-3), int64(1<<53 + 1), uint64(math.MaxUint64), int8(0),
	}
}

// jsonView is the representation encoding/json documents for a value decoded
// into an untyped position: every number is a float64 (the nearest one to its
// decimal text), everything else keeps its shape.
func jsonView(v interface{}) interface{} {
	switch x := v.(type) {
	case int:
		return nearestFloat(strconv.FormatInt(int64(x), 10))
	case int8:
		return nearestFloat(strconv.FormatInt(int64(x), 10))
	case int64:
		return nearestFloat(strconv.FormatInt(x, 10))
	case uint64:
		return nearestFloat(strconv.FormatUint(x, 10))
	case []interface{}:
		if x == nil {
			return x
		}
		out := make([]interface{}, len(x))
		for i := range x {
			out[i] = jsonView(x[i])
		}
		return out
	case map[string]interface{}:
		if x == nil {
			return x
		}
		out := make(map[string]interface{}, len(x))
		for k, e := range x {
			out[k] = jsonView(e)
		}
		return out
	}
	return v
}

func nearestFloat(dec string) float64 {
	f, _ := strconv.ParseFloat(dec, 64)
	return f
}

// expected is the value a typed record must have after the round trip.
func (p Payload) expected() Payload {
	p.Any = jsonView(p.Any)
	if p.AnyMap != nil {
		p.AnyMap = jsonView(p.AnyMap).(map[string]interface{})
	}
	if p.AnyList != nil {
		p.AnyList = jsonView(p.AnyList).([]interface{})
	}
	return p
}

// TestRec is the typed record of the harness schema (same shape as portbase's own test records).
type TestRec struct {
	record.Base
	sync.Mutex
	Payload
}

func typedValues() []Payload {
	var out []Payload
	out = append(out, Payload{})
	long := make([]byte, 300)
	for i := range long {
		long[i] = byte(i)
	}
	for _, s := range []string{"a", "ünï©ode ☃ 𝄞", "<script>&\"\\\n\t\u0000 ", `{"Created":1,"Deleted":1}`, "J{}", string(bytes.Repeat([]byte("x"), 300))} {
		out = append(out, Payload{S: s})
	}
	for _, v := range []int64{1, -1, math.MaxInt64, math.MinInt64, 1<<53 + 1} {
		out = append(out, Payload{I: v})
	}
	for _, v := range []uint64{1, 1 << 63, math.MaxUint64} {
		out = append(out, Payload{U: v})
	}
	out = append(out, Payload{I8: -128}, Payload{I8: 127}, Payload{U16: 65535})
	for _, v := range []float64{1.5, -1e300, 5e-324, math.MaxFloat64, 0.1} {
		out = append(out, Payload{F: v})
	}
	out = append(out, Payload{B: true})
	for _, v := range [][]byte{{}, {0}, {1, 35, 71}, {0xff, 0x80, 0x01}, long} {
		out = append(out, Payload{Bytes: v})
	}
	for _, v := range [][]string{{}, {""}, {"a", "b"}, {"ü", "<>", `"`}} {
		out = append(out, Payload{Strs: v})
	}
	for _, v := range []map[string]int64{{}, {"k": 1}, {"": -1, "ü": math.MaxInt64, "a:b": math.MinInt64}} {
		out = append(out, Payload{M: v})
	}
	out = append(out, Payload{Sub: Sub{A: "q", B: 7}}, Payload{P: &Sub{}}, Payload{P: &Sub{A: "x", B: math.MinInt64}}, Payload{Tagged: "t"})
	// everything set at once
	out = append(out, Payload{S: "all", I: math.MinInt64, U: math.MaxUint64, I8: -1, U16: 1, F: -2.5, B: true, Bytes: []byte{74, '{', '}'},
		Strs: []string{"x"}, M: map[string]int64{"m": 2}, Sub: Sub{A: "s", B: -1}, P: &Sub{A: "p", B: 1}, Tagged: "<t>"})
	// untyped positions: every untyped value in an interface{} field, as a map value and as a list element
	uv := untypedValues()
	for _, v := range uv {
		out = append(out, Payload{Any: v}, Payload{AnyMap: map[string]interface{}{"k": v}}, Payload{AnyList: []interface{}{v}})
	}
	out = append(out, Payload{AnyMap: map[string]interface{}{}}, Payload{AnyList: []interface{}{}},
		Payload{S: "mixed", I: 1<<53 + 1, Any: uv[19], AnyMap: map[string]interface{}{"a": float64(1), "b": "two", "c": nil}, AnyList: []interface{}{float64(-1), 2.5, "x", true, nil}})
	return out
}

// ---------- cases and witnesses ----------

type witness struct {
	Kind    string   `json:"kind"` // wrapper | typed | typed-alt | bytes
	Family  string   `json:"family,omitempty"`
	Key     string   `json:"key,omitempty"`
	Meta    *metaV   `json:"meta,omitempty"`
	Format  uint8    `json:"format,omitempty"`
	Payload string   `json:"payload_hex,omitempty"`
	Typed   *Payload `json:"typed,omitempty"`
	Input   string   `json:"input_hex,omitempty"`
	Tail    string   `json:"bytes_after_input_hex,omitempty"`
	Note    string   `json:"note,omitempty"`
}

func hx(b []byte) string { return hex.EncodeToString(b) }

func short(b []byte) string {
	if len(b) <= 48 {
		return hx(b)
	}
	return fmt.Sprintf("%s..(%d bytes)", hx(b[:48]), len(b))
}

// parsed is the observable result of NewRawWrapper.
type parsed struct {
	panicV any
	stack  string
	err    error
	w      *record.Wrapper
	key    string
	meta   metaV
	format uint8
	data   []byte
}

func splitKey(key string) (string, string) { return record.ParseKey(key) }

func parse(key string, in []byte) (p parsed) {
	db, k := splitKey(key)
	p.panicV, p.stack = vlib.Catch(func() {
		p.w, p.err = record.NewRawWrapper(db, k, in)
		if p.err == nil && p.w != nil {
			p.key = p.w.Key()
			p.meta = readMeta(p.w.Meta())
			p.format = p.w.Format
			p.data = p.w.Data
		}
	})
	return
}

func (p parsed) class() string {
	switch {
	case p.panicV != nil:
		return "panic"
	case p.err != nil:
		return "error"
	case p.w == nil:
		return "nil-record"
	case p.meta.deleted():
		return "record-deleted"
	}
	return "record-live"
}

type expect struct {
	key    string
	meta   metaV
	format uint8
	data   []byte
	typed  *Payload
}

type stats struct {
	calls, cases, states, nontrivial int64
	outcomes                         map[string]int64
}

func newStats() *stats { return &stats{outcomes: map[string]int64{}} }

func (s *stats) flush(c *vlib.Ctx) {
	c.Add(s.states, s.calls, s.cases)
	c.NontrivialN(s.nontrivial)
	for k, v := range s.outcomes {
		c.OutcomeN(k, v)
	}
}

const (
	siteWrapper = "Wrapper.MarshalRecord>NewRawWrapper"
	siteTyped   = "Base.MarshalRecord>NewRawWrapper"
)

// roundTrip serialises r with the real MarshalRecord, parses the result back
// and compares with exp. It returns an outcome word and the parse result.
func roundTrip(c *vlib.Ctx, st *stats, site string, r record.Record, exp expect, w witness) (string, *parsed) {
	var enc []byte
	var err error
	pv, stack := vlib.Catch(func() { enc, err = r.MarshalRecord(r) })
	st.calls++
	if pv != nil {
		viol(c, "marshal-never-panics", site, vlib.PanicSite(stack), w, "MarshalRecord panicked: %v (meta %+v format %d)", pv, exp.meta, exp.format)
		return "marshal-panic", nil
	}
	if err != nil {
		viol(c, "marshal-succeeds", site, "error-instead-of-ok", w, "MarshalRecord returned error %q (meta %+v format %d data %s)", err, exp.meta, exp.format, short(exp.data))
		return "marshal-error", nil
	}
	in := make([]byte, len(enc))
	copy(in, enc)
	p := parse(exp.key, in)
	st.calls++
	if p.panicV != nil {
		viol(c, "parse-never-panics", "NewRawWrapper", vlib.PanicSite(p.stack), w, "NewRawWrapper(%s) panicked: %v", short(in), p.panicV)
		return "parse-panic", nil
	}
	if p.err != nil {
		viol(c, "roundtrip-parses", site, "error-instead-of-ok", w, "NewRawWrapper(MarshalRecord(r)) = error %q; stored form %s (meta %+v format %d data %s)", p.err, short(in), exp.meta, exp.format, short(exp.data))
		return "parse-error", nil
	}
	bad := false
	if p.key != exp.key {
		bad = true
		viol(c, "roundtrip-key", site, "wrong-key", w, "key %q became %q", exp.key, p.key)
	}
	if p.meta != exp.meta {
		bad = true
		viol(c, "roundtrip-meta", site, "wrong-meta", w, "meta %+v became %+v; stored form %s", exp.meta, p.meta, short(in))
	}
	if exp.meta.deleted() {
		if len(p.data) != 0 {
			bad = true
			viol(c, "deleted-has-no-data", site, "data-present", w, "deleted record (Deleted=%d) came back with %d data bytes %s", exp.meta.D, len(p.data), short(p.data))
		}
	} else {
		if exp.typed == nil && p.format != exp.format {
			bad = true
			viol(c, "roundtrip-format", site, "wrong-format", w, "format %d became %d; stored form %s", exp.format, p.format, short(in))
		}
		if exp.typed == nil && !bytes.Equal(p.data, exp.data) {
			bad = true
			viol(c, "roundtrip-data", site, "wrong-bytes", w, "data %s became %s (format %d); stored form %s", short(exp.data), short(p.data), exp.format, short(in))
		}
		if exp.typed != nil {
			nr := &TestRec{}
			var uerr error
			pv, stack := vlib.Catch(func() { uerr = record.Unwrap(p.w, nr) })
			st.calls++
			switch {
			case pv != nil:
				bad = true
				viol(c, "unwrap-never-panics", "Unwrap", vlib.PanicSite(stack), w, "Unwrap panicked: %v", pv)
			case uerr != nil:
				bad = true
				viol(c, "unwrap-equals-original", "Unwrap", "error-instead-of-ok", w, "Unwrap returned %q for stored form %s", uerr, short(in))
			default:
				if !reflect.DeepEqual(nr.Payload, *exp.typed) {
					bad = true
					viol(c, "unwrap-equals-original", "Unwrap", "wrong-value", w, "typed record %s became %s; stored form %s", goStr(*exp.typed), goStr(nr.Payload), short(in))
				}
				if nr.Key() != exp.key {
					bad = true
					viol(c, "unwrap-equals-original", "Unwrap", "wrong-key", w, "key %q became %q", exp.key, nr.Key())
				}
				if nr.Meta() == nil || readMeta(nr.Meta()) != exp.meta {
					bad = true
					viol(c, "unwrap-equals-original", "Unwrap", "wrong-meta", w, "meta %+v lost by Unwrap", exp.meta)
				}
			}
		}
	}
	if bad {
		return "mismatch", &p
	}
	return "ok", &p
}

func mkWrapper(key string, m metaV, format uint8, payload []byte) (*record.Wrapper, error) {
	return record.NewWrapper(key, m.build(), format, payload)
}

// checkWrapper: round trip of wrapped raw data, plus the round trip of the record obtained.
func checkWrapper(c *vlib.Ctx, st *stats, key string, m metaV, format uint8, payload []byte) string {
	w := witness{Kind: "wrapper", Key: key, Meta: &m, Format: format, Payload: hx(payload)}
	wr, err := mkWrapper(key, m, format, payload)
	if err != nil {
		c.EngineError("NewWrapper: %v", err)
		return "engine"
	}
	st.cases++
	st.states++
	st.nontrivial++
	out, p := roundTrip(c, st, siteWrapper, wr, expect{key: key, meta: m, format: format, data: payload}, w)
	if out == "ok" && p != nil {
		// the record obtained is itself a record of the domain: serialise it again
		w.Note = "second generation: record returned by NewRawWrapper serialised again"
		o2, _ := roundTrip(c, st, siteWrapper, p.w, expect{key: p.key, meta: p.meta, format: p.format, data: p.data}, w)
		if o2 != "ok" {
			out = "second-generation-" + o2
		}
	}
	cl := "live"
	if m.deleted() {
		cl = "deleted"
	}
	return "roundtrip:wrapper-" + cl + "-" + fmtClass(format) + ":" + out
}

func fmtClass(f uint8) string {
	switch {
	case f == 0:
		return "fmtAUTO"
	case f == dsd.RAW:
		return "fmtRAW"
	case f == dsd.JSON, f == dsd.CBOR, f == dsd.MsgPack, f == dsd.YAML, f == dsd.GenCode:
		return "fmtSerial"
	case f == dsd.GZIP, f == dsd.LIST:
		return "fmtSpecial"
	case f < 128:
		return "fmtUnknown1B"
	}
	return "fmtUnknown2B"
}

// checkTyped: round trip of a typed record of the harness schema.
func checkTyped(c *vlib.Ctx, st *stats, key string, m metaV, v Payload) string {
	w := witness{Kind: "typed", Key: key, Meta: &m, Typed: &v}
	r := &TestRec{Payload: v}
	r.SetKey(key)
	r.SetMeta(m.build())
	st.cases++
	st.states++
	st.nontrivial++
	want := v.expected()
	out, p := roundTrip(c, st, siteTyped, r, expect{key: key, meta: m, typed: &want}, w)
	if out == "ok" && p != nil {
		w.Note = "second generation: wrapper returned by NewRawWrapper serialised again"
		o2, p2 := roundTrip(c, st, siteWrapper, p.w, expect{key: p.key, meta: p.meta, format: p.format, data: p.data}, w)
		if o2 != "ok" {
			out = "second-generation-" + o2
		} else if !m.deleted() {
			// and it must still unwrap to the original
			nr := &TestRec{}
			var uerr error
			pv, _ := vlib.Catch(func() { uerr = record.Unwrap(p2.w, nr) })
			st.calls++
			if pv != nil || uerr != nil || !reflect.DeepEqual(nr.Payload, want) {
				viol(c, "unwrap-equals-original", "Unwrap", "wrong-value-second-generation", w, "typed record %s became %s (panic %v, err %v) after two round trips", goStr(want), goStr(nr.Payload), pv, uerr)
				out = "second-generation-mismatch"
			}
		}
	}
	cl := "live"
	if m.deleted() {
		cl = "deleted"
	}
	return "roundtrip:typed-" + cl + ":" + out
}

// goStr prints a payload with the Go types of the untyped positions visible.
func goStr(p Payload) string {
	return fmt.Sprintf("%+v [Any=(%T)%#v AnyMap=%#v AnyList=%#v]", p, p.Any, p.Any, p.AnyMap, p.AnyList)
}

var altFormats = []uint8{dsd.JSON, dsd.CBOR, dsd.MsgPack, dsd.YAML}

// libraryDecode decodes data with the format's own decoder in its default
// configuration: the representation the format documents for untyped positions.
func libraryDecode(format uint8, data []byte, t interface{}) error {
	switch format {
	case dsd.JSON:
		return json.Unmarshal(data, t)
	case dsd.CBOR:
		return cbor.Unmarshal(data, t)
	case dsd.MsgPack:
		return msgpack.Unmarshal(data, t)
	case dsd.YAML:
		return yaml.Unmarshal(data, t)
	}
	return fmt.Errorf("no library decoder for format %d", format)
}

// checkTypedAlt: the typed record serialised by Base.Marshal in another
// serialisation format, held by a wrapper, stored, parsed and unwrapped. The
// unwrapped record must be what the format's own decoder makes of the data.
func checkTypedAlt(c *vlib.Ctx, st *stats, key string, m metaV, v Payload, format uint8) string {
	w := witness{Kind: "typed-alt", Key: key, Meta: &m, Typed: &v, Format: format}
	st.cases++
	st.states++
	r := &TestRec{Payload: v}
	r.SetKey(key)
	r.SetMeta(m.build())
	var dumped []byte
	var derr error
	pv, stack := vlib.Catch(func() { dumped, derr = r.Marshal(r, format) })
	st.calls++
	name := fmt.Sprintf("roundtrip:typed-in-format-%d:", format)
	if pv != nil {
		viol(c, "marshal-never-panics", "Base.Marshal", vlib.PanicSite(stack), w, "Base.Marshal(format %d) panicked: %v", format, pv)
		return name + "marshal-panic"
	}
	if derr != nil || len(dumped) < 1 || dumped[0] != format {
		return name + "not-dumpable" // outside this property (C09: dsd dump/load)
	}
	data := dumped[1:]
	ref := &TestRec{}
	if err := libraryDecode(format, data, ref); err != nil {
		return name + "library-decoder-rejects" // outside this property
	}
	st.nontrivial++
	wr, _ := mkWrapper(key, m, format, data)
	out, p := roundTrip(c, st, siteWrapper, wr, expect{key: key, meta: m, format: format, data: data}, w)
	if out != "ok" || p == nil {
		return name + out
	}
	nr := &TestRec{}
	var uerr error
	pv, stack = vlib.Catch(func() { uerr = record.Unwrap(p.w, nr) })
	st.calls++
	switch {
	case pv != nil:
		viol(c, "unwrap-never-panics", "Unwrap", vlib.PanicSite(stack), w, "Unwrap (format %d) panicked: %v", format, pv)
		return name + "unwrap-panic"
	case uerr != nil:
		viol(c, "unwrap-equals-original", "Unwrap", "error-instead-of-ok-other-format", w, "Unwrap (format %d) returned %q, the format's decoder accepts the data %s", format, uerr, short(data))
		return name + "unwrap-error"
	case !reflect.DeepEqual(nr.Payload, ref.Payload):
		viol(c, "unwrap-equals-original", "Unwrap", "differs-from-format-decoder", w, "format %d: Unwrap gave %s, the format's decoder gives %s; data %s", format, goStr(nr.Payload), goStr(ref.Payload), short(data))
		return name + "mismatch"
	case nr.Key() != key || nr.Meta() == nil || readMeta(nr.Meta()) != m:
		viol(c, "unwrap-equals-original", "Unwrap", "wrong-meta", w, "format %d: key/meta %q %+v lost by Unwrap", format, key, m)
		return name + "mismatch"
	}
	return name + "ok"
}

func sameResult(a, b parsed) bool {
	if a.class() != b.class() {
		return false
	}
	if a.err != nil || a.panicV != nil {
		return true
	}
	return a.key == b.key && a.meta == b.meta && a.format == b.format && bytes.Equal(a.data, b.data)
}

// checkBytes feeds one byte string to NewRawWrapper. tail = bytes placed
// behind the input in the same allocation for the second call.
func checkBytes(c *vlib.Ctx, st *stats, family string, in, tail []byte) string {
	const key = "db:k"
	st.cases++
	st.states++
	exact := make([]byte, len(in))
	copy(exact, in)
	mkw := func() witness {
		return witness{Kind: "bytes", Family: family, Input: hx(in), Tail: hx(tail)}
	}
	ref := refParse(in)
	if ref.reachedMeta {
		st.nontrivial++
	}
	p := parse(key, exact)
	st.calls++
	if p.panicV != nil {
		viol(c, "parse-never-panics", "NewRawWrapper", vlib.PanicSite(p.stack), mkw(), "NewRawWrapper(%s) panicked: %v", short(in), p.panicV)
		return "parse:" + ref.stage + ":panic"
	}
	if p.err == nil && p.w == nil {
		viol(c, "record-or-error", "NewRawWrapper", "nil-record-and-nil-error", mkw(), "NewRawWrapper(%s) returned (nil, nil)", short(in))
		return "parse:" + ref.stage + ":nil"
	}
	// second call: same bytes, but followed by further bytes inside the same allocation
	slack := make([]byte, len(in)+len(tail))
	copy(slack, in)
	copy(slack[len(in):], tail)
	p2 := parse(key, slack[:len(in)])
	st.calls++
	if !sameResult(p, p2) {
		viol(c, "no-read-beyond-input", "NewRawWrapper", "result-depends-on-bytes-after-input", mkw(), "NewRawWrapper(%s): %s with cap==len, %s when followed by %s", short(in), p.class(), p2.class(), short(tail))
	}
	if p.err == nil {
		// data must be a part of the input (the suffix it is by layout)
		if len(p.data) > 0 {
			s0 := uintptr(unsafe.Pointer(unsafe.SliceData(exact)))
			d0 := uintptr(unsafe.Pointer(unsafe.SliceData(p.data)))
			if d0 < s0 || d0+uintptr(len(p.data)) > s0+uintptr(len(exact)) {
				viol(c, "data-within-input", "NewRawWrapper", "outside-input", mkw(), "NewRawWrapper(%s) returned %d data bytes outside the input", short(in), len(p.data))
			}
		}
		if len(p.data) > len(in) {
			viol(c, "data-within-input", "NewRawWrapper", "longer-than-input", mkw(), "NewRawWrapper(%s) returned %d data bytes", short(in), len(p.data))
		}
		if ref.lengthExceeds {
			viol(c, "length-field-validated", "NewRawWrapper", "record-instead-of-error", mkw(), "NewRawWrapper(%s) returned a record although the block length exceeds the input", short(in))
		}
	}
	out := p.class()
	if ref.canonical {
		// If the real serialiser maps the record the layout describes to exactly
		// this input, the round-trip clause fixes the result of parsing it.
		wr, _ := mkWrapper(key, ref.meta, ref.format, ref.data)
		var enc []byte
		var merr error
		pv, _ := vlib.Catch(func() { enc, merr = wr.MarshalRecord(wr) })
		st.calls++
		if pv == nil && merr == nil && bytes.Equal(enc, in) {
			w := mkw()
			w.Note = "input is MarshalRecord of the record described by the layout"
			switch {
			case p.err != nil:
				viol(c, "roundtrip-parses", siteWrapper, "error-instead-of-ok", w, "NewRawWrapper(%s) = error %q but the input is the stored form of meta %+v format %d", short(in), p.err, ref.meta, ref.format)
				out = "error-on-image"
			case p.meta != ref.meta:
				viol(c, "roundtrip-meta", siteWrapper, "wrong-meta", w, "NewRawWrapper(%s): meta %+v, layout says %+v", short(in), p.meta, ref.meta)
				out = "mismatch-on-image"
			case !ref.meta.deleted() && p.format != ref.format:
				viol(c, "roundtrip-format", siteWrapper, "wrong-format", w, "NewRawWrapper(%s): format %d, layout says %d", short(in), p.format, ref.format)
				out = "mismatch-on-image"
			case !bytes.Equal(p.data, ref.data):
				viol(c, "roundtrip-data", siteWrapper, "wrong-bytes", w, "NewRawWrapper(%s): data %s, layout says %s", short(in), short(p.data), short(ref.data))
				out = "mismatch-on-image"
			default:
				out += "-image-ok"
			}
		} else {
			out += "-not-image"
		}
	}
	if p.err == nil && out != "mismatch-on-image" {
		// whatever record was returned is a record: it must serialise and round-trip
		w := mkw()
		w.Note = "record returned by NewRawWrapper for this input, serialised again"
		o2, _ := roundTrip(c, st, siteWrapper, p.w, expect{key: p.key, meta: p.meta, format: p.format, data: p.data}, w)
		if o2 != "ok" {
			out += "-reserialise-" + o2
		}
	}
	return "parse:" + ref.stage + ":" + out
}

// viol records a violation. Only the first occurrences of a signature are
// itemised (formatted and handed to vlib); the rest are counted, so that a
// defect hit by millions of cases does not serialise the workers.
var violCount sync.Map // signature -> *int64

const itemisedPerSignature = 200

func viol(c *vlib.Ctx, clause, site, disc string, w witness, format string, a ...any) {
	sig := clause + "|" + site + "|" + disc
	v, ok := violCount.Load(sig)
	if !ok {
		v, _ = violCount.LoadOrStore(sig, new(int64))
	}
	if atomic.AddInt64(v.(*int64), 1) > itemisedPerSignature {
		return
	}
	c.Violate(clause, site, disc, fmt.Sprintf(format, a...), w)
}

func reportViolCounts(c *vlib.Ctx) {
	violCount.Range(func(k, v any) bool {
		c.Extra("violating_cases:"+k.(string), atomic.LoadInt64(v.(*int64)))
		return true
	})
}

// ---------- domains ----------

const fixedNow = int64(1790000000) // a fixed "now" (2026), never the wall clock

func metaValues(thorough bool) []int64 {
	v := []int64{0, 1, -1, fixedNow, math.MaxInt64, math.MinInt64, 0x0102030405060708}
	if thorough {
		v = append(v, 255, 256, 1<<31, -(1 << 31), 1<<32, -fixedNow)
	}
	return v
}

func allMetas(vals []int64) []metaV {
	var out []metaV
	for _, c := range vals {
		for _, m := range vals {
			for _, e := range vals {
				for _, d := range vals {
					for fl := 0; fl < 4; fl++ {
						out = append(out, metaV{C: c, M: m, E: e, D: d, Secret: fl&1 != 0, Crown: fl&2 != 0})
					}
				}
			}
		}
	}
	return out
}

// a small diverse subset used where the other dimension is large
func fewMetas() []metaV {
	return []metaV{
		{},
		{C: 0x0102030405060708, M: 0x1112131415161718, E: 0x2122232425262728, D: -0x3132333435363738, Secret: true},
		{C: fixedNow, M: fixedNow + 1, E: fixedNow + 3600, D: 0, Crown: true},
		{C: fixedNow, M: fixedNow, E: 0, D: fixedNow + 5}, // deleted
		{C: -1, M: -1, E: -1, D: -1, Secret: true, Crown: true},
		{C: math.MaxInt64, M: math.MinInt64, E: math.MaxInt64, D: math.MinInt64},
		{C: 1, M: 1, E: 1, D: 1, Secret: true, Crown: true}, // deleted
		{D: math.MaxInt64}, // deleted
	}
}

func payloads(thorough bool) [][]byte {
	long := make([]byte, 300)
	for i := range long {
		long[i] = byte(i * 7)
	}
	p := [][]byte{
		nil,
		{0x00},
		{0x01},
		[]byte(`{"a":1}`),
		{0x80},
		{0xff, 0x01, 0x02},
		refMarshal(metaV{C: 1, M: 2, E: 3, D: 0}, dsd.JSON, []byte("{}")), // a whole stored record as payload
		long,
	}
	if thorough {
		p = append(p, []byte{}, []byte{0x01, 0x01}, []byte{1, 35, 71}, bytes.Repeat([]byte{0xff}, 16), []byte{74, '{', '}'})
	}
	return p
}

var dsdFormats = []uint8{dsd.AUTO, dsd.RAW, dsd.CBOR, dsd.GenCode, dsd.JSON, dsd.MsgPack, dsd.YAML, dsd.GZIP, dsd.LIST}

func formatAlphabet() []uint8 { return append(append([]uint8{}, dsdFormats...), 2, 127, 128, 255) }

var keys = []string{"db:k", "db:a:b", "core:config/x y", "d:ä/ü☃", "db:", ":"}

// ---------- corruption families ----------

type baseEnc struct {
	name   string
	enc    []byte
	fields [][2]int // (offset, length) of the varint fields: version, block length, meta format, record format
}

// locate the varint fields of an encoding produced from a well-formed record
func fieldsOf(enc []byte) [][2]int {
	f := [][2]int{{0, 1}}
	l, k, st := refDecode(enc[1:])
	if st != 0 {
		return f
	}
	f = append(f, [2]int{1, k})
	off := 1 + k
	if off < len(enc) {
		f = append(f, [2]int{off, 1})
	}
	off += int(l)
	if off < len(enc) {
		_, fk, st := refDecode(enc[off:])
		if st == 0 {
			f = append(f, [2]int{off, fk})
		}
	}
	return f
}

func marshalReal(c *vlib.Ctx, r record.Record) []byte {
	var enc []byte
	var err error
	pv, _ := vlib.Catch(func() { enc, err = r.MarshalRecord(r) })
	if pv != nil || err != nil {
		return nil // reported by the round-trip part
	}
	return enc
}

// altMetaEnc builds a stored form whose meta section is in another dsd format
// (accepted by the parser: the meta section is loaded with dsd.Load).
func altMetaEnc(m metaV, metaFormat uint8, compress bool, format uint8, payload []byte) []byte {
	var blk []byte
	var err error
	if compress {
		blk, err = dsd.DumpAndCompress(m.build(), metaFormat, dsd.GZIP)
	} else {
		blk, err = dsd.Dump(m.build(), metaFormat)
	}
	if err != nil {
		return nil
	}
	out := []byte{1}
	out = append(out, refPack(uint64(len(blk)))...)
	out = append(out, blk...)
	if m.deleted() {
		return out
	}
	out = append(out, refPack(uint64(format))...)
	return append(out, payload...)
}

func baseEncodings(c *vlib.Ctx, n int) []baseEnc {
	var out []baseEnc
	seen := map[string]bool{}
	add := func(name string, enc []byte) {
		if enc == nil || seen[string(enc)] || len(out) >= n {
			return
		}
		seen[string(enc)] = true
		out = append(out, baseEnc{name: name, enc: enc, fields: fieldsOf(enc)})
	}
	ms := fewMetas()
	pl := payloads(false)
	fa := formatAlphabet()
	tv := typedValues()
	// interleave wrappers, typed records and alternative meta encodings, simplest first
	for i := 0; len(out) < n && i < 4*n; i++ {
		m := ms[i%len(ms)]
		switch i % 4 {
		case 0, 1:
			f := fa[(i/2)%len(fa)]
			p := pl[(i/3)%len(pl)]
			wr, _ := mkWrapper("db:k", m, f, p)
			add(fmt.Sprintf("wrapper meta#%d format %d payload %dB", i%len(ms), f, len(p)), marshalReal(c, wr))
		case 2:
			r := &TestRec{Payload: tv[(i*7)%len(tv)]}
			r.SetKey("db:k")
			r.SetMeta(m.build())
			add(fmt.Sprintf("typed meta#%d value#%d", i%len(ms), (i*7)%len(tv)), marshalReal(c, r))
		case 3:
			mf := []uint8{dsd.JSON, dsd.CBOR, dsd.MsgPack, dsd.YAML, dsd.JSON}[(i/4)%5]
			comp := (i/4)%5 == 4
			add(fmt.Sprintf("alt-meta format %d gzip=%v meta#%d", mf, comp, i%len(ms)), altMetaEnc(m, mf, comp, dsd.JSON, []byte(`{"a":1}`)))
		}
	}
	return out
}

var subst4 = []byte{0x00, 0x7f, 0x80, 0xff}

func lengthReplacements(v uint64) [][]byte {
	var out [][]byte
	for _, x := range []uint64{0, v - 1, v + 1, 127, 128, 1 << 31, 1 << 62, 1 << 63, math.MaxUint64} {
		out = append(out, refPack(x))
	}
	out = append(out, []byte{byte(v&0x7f) | 0x80, 0x00})                                     // non-minimal
	out = append(out, append(bytes.Repeat([]byte{0xff}, 10), 0x01))                          // 11 bytes: beyond 64 bit
	out = append(out, append(bytes.Repeat([]byte{0xff}, 9), 0x7f))                           // 10 bytes: beyond 64 bit
	out = append(out, bytes.Repeat([]byte{0x80}, 12))                                        // never terminates
	out = append(out, append(bytes.Repeat([]byte{0x80}, 9), 0x01), []byte{0x80, 0x80, 0x01}) // 2^63 and 2^14 again
	return out
}

// corruptions calls emit for every corrupted variant of b (tail = what followed the variant in the original, for truncations).
func corruptions(b baseEnc, fullSubstUpTo int, pairUpTo int, emit func(kind string, in, tail []byte)) {
	enc := b.enc
	for k := 0; k <= len(enc); k++ {
		emit("truncation", enc[:k], enc[k:])
	}
	cont := refMarshal(metaV{C: 1, M: 2}, dsd.JSON, []byte("{}"))
	for i := range enc {
		if i < fullSubstUpTo || i >= len(enc)-2 {
			for x := 0; x < 256; x++ {
				if byte(x) != enc[i] {
					v := append([]byte{}, enc...)
					v[i] = byte(x)
					emit("substitution", v, cont)
				}
			}
		} else {
			for _, x := range subst4 {
				if x != enc[i] {
					v := append([]byte{}, enc...)
					v[i] = x
					emit("substitution", v, cont)
				}
			}
		}
	}
	for _, f := range b.fields {
		old, _, _ := refDecode(enc[f[0] : f[0]+f[1]])
		for _, rep := range lengthReplacements(old) {
			v := append(append(append([]byte{}, enc[:f[0]]...), rep...), enc[f[0]+f[1]:]...)
			emit("field-replacement", v, cont)
		}
	}
	// single byte inserted / removed
	for i := 0; i <= len(enc) && i < 48; i++ {
		for _, x := range subst4 {
			v := append(append(append([]byte{}, enc[:i]...), x), enc[i:]...)
			emit("insertion", v, cont)
		}
		if i < len(enc) {
			v := append(append([]byte{}, enc[:i]...), enc[i+1:]...)
			emit("deletion", v, cont)
		}
	}
	// two positions of the header at once
	lim := pairUpTo
	if lim > len(enc) {
		lim = len(enc)
	}
	for i := 0; i < lim; i++ {
		for j := i + 1; j < lim; j++ {
			for _, x := range subst4 {
				for _, y := range subst4 {
					if x != enc[i] && y != enc[j] {
						v := append([]byte{}, enc...)
						v[i], v[j] = x, y
						emit("double-substitution", v, cont)
					}
				}
			}
		}
	}
}

// ---------- main ----------

func main() {
	vlib.Main("C08", "model_checking", func(c *vlib.Ctx) {
		c.Rule("exhaustive enumeration of (a) records: metadata tuples over a boundary value set^4 x both flags x payload set x format set (all 256 formats on a smaller meta set) as wrapped raw data, and x a typed-value set of the harness schema as typed records (concretely typed fields, and every value of an untyped-value set - integral and non-integral numbers incl. 0, negatives and the 2^53 boundary, strings, bools, nil, nested maps/lists - in an interface{} field, as a map[string]interface{} value and as a []interface{} element), plus every typed value held by a wrapper in JSON/CBOR/MsgPack/YAML, each serialised with the real MarshalRecord, parsed with the real NewRawWrapper, unwrapped (typed) and serialised a second time; " +
			"(b) byte strings: all strings of length <= 3; 01 | len | every meta-format byte | every body of length <= 2 with and without a data section (thorough: also every body of length 3 followed by a data section, for the 9 dsd format bytes and '{'); 01 | every boundary block length | 0..3 bytes; and for N valid encodings (wrappers, typed records, meta sections in JSON/CBOR/MsgPack/YAML/gzip) every truncation, every single-byte substitution (all 256 values in the header, {00,7f,80,ff} elsewhere), every varint field replaced by {0, v-1, v+1, 127, 128, 2^31, 2^62, 2^63, 2^64-1, non-minimal, >64 bit, unterminated}, single-byte insertions/deletions and pairs of header substitutions; every byte string is parsed twice (cap==len, and followed by a plausible continuation in the same allocation). " +
			"states = distinct records + distinct byte strings (corruptions de-duplicated by hash); non-trivial = records, and byte strings for which a textbook decoder reaches the meta section (version 1 and a block covered by the input)")
		c.Assume("the key is not part of the stored form: NewRawWrapper receives database name and key from the caller (as storage backends do); 'same key' is checked on Key() of the result")
		c.Assume("for deleted records (Deleted > 0) the stored form carries no format byte and the parser reports RAW; the data format of a deleted record is therefore not compared, only that it has no data")
		c.Assume("the private flags secret/crownjewel are set with MakeSecret/MakeCrownJewel and observed through CheckPermission, which reports exactly these two flags")
		c.Assume("typed records: strings of the harness schema are valid UTF-8 and floats finite (the JSON encoding Base.MarshalRecord uses cannot represent others); equality is reflect.DeepEqual on the exported fields plus key and the six metadata fields")
		c.Assume("untyped positions of a typed record (interface{} field, map[string]interface{} values, []interface{} elements): 'equals the original' means equal up to the representation the format's decoder documents for untyped positions. For the stored form of a typed record (JSON, the only format Base.MarshalRecord writes) that is encoding/json's: every number a float64 (originals written as float64 are compared exactly; Go integers are expected as the nearest float64), string, bool, nil, []interface{}, map[string]interface{}. For a typed record held by a wrapper in CBOR/MsgPack/YAML/JSON (scenario roundtrip-typed-other-formats) the unwrapped record is compared with what the format's own library decoder in default configuration makes of the same data; whether that equals the original is property C09's business and values a format cannot dump or its decoder rejects are skipped")
		c.Assume("arbitrary bytes: a result of (record) or (error) is accepted for every input; beyond that only what the statement fixes is demanded: no panic, data inside the input, same result whatever follows the input in memory, no record when the block length exceeds the input, and the round-trip clause when the input is byte-for-byte what the real MarshalRecord produces for the record the layout describes; any record returned must itself round-trip")
		if c.Replay != "" {
			var w witness
			if _, err := c.LoadReplay(&w); err != nil {
				c.EngineError("replay: %v", err)
				return
			}
			replay(c, w)
			return
		}
		thorough := !c.Quick()
		c.SetBudget(time.Duration(vlib.Pick(c, 170, 1620)) * time.Second)

		last, lastName := time.Now(), ""
		phase := func(name string) { // wall time per scenario, informational only
			if lastName != "" {
				c.Extra("wall_s:"+lastName, math.Round(time.Since(last).Seconds()*10)/10)
			}
			last, lastName = time.Now(), name
			if name != "" {
				c.Scenario(name)
			}
		}
		defer reportViolCounts(c)
		defer phase("")

		// ---- (a) round trips ----
		metas := allMetas(metaValues(thorough))
		pls := payloads(thorough)
		fa := formatAlphabet()
		phase("roundtrip-wrapper")
		c.Extra("meta_tuples", int64(len(metas)))
		c.Extra("payloads", int64(len(pls)))
		c.Extra("formats_full_product", int64(len(fa)))
		chunks := 256
		wrapperRow := func(st *stats, i int) {
			for pi, p := range pls {
				for _, f := range fa {
					st.outcomes[checkWrapper(c, st, keys[(i+pi)%len(keys)], metas[i], f, p)]++
				}
			}
		}
		{
			// simplest record first and sequentially (all-zero metadata, shortest
			// payloads first), so that the witness kept for a signature is the
			// same minimal one in every run
			st := newStats()
			wrapperRow(st, 0)
			st.flush(c)
		}
		c.ParallelFor(chunks, func(ch int) {
			st := newStats()
			defer st.flush(c)
			for i := ch; i < len(metas); i += chunks {
				if i == 0 {
					continue
				}
				if i%64 == 0 && c.Expired() {
					return
				}
				wrapperRow(st, i)
			}
		})
		// all 256 formats on a smaller meta set (thorough: on the quick meta set)
		small := fewMetas()
		if thorough {
			small = allMetas(metaValues(false))
		}
		c.Extra("meta_tuples_all_formats", int64(len(small)))
		isIn := map[uint8]bool{}
		for _, f := range fa {
			isIn[f] = true
		}
		inBig := map[metaV]bool{}
		for _, m := range metas {
			inBig[m] = true
		}
		c.ParallelFor(256, func(f int) {
			st := newStats()
			defer st.flush(c)
			for i, m := range small {
				if isIn[uint8(f)] && inBig[m] {
					continue // already in the full product
				}
				if i%64 == 0 && c.Expired() {
					return
				}
				for pi, p := range pls {
					st.outcomes[checkWrapper(c, st, keys[(i+pi)%len(keys)], m, uint8(f), p)]++
				}
			}
		})
		phase("roundtrip-typed")
		tvs := typedValues()
		c.Extra("typed_values", int64(len(tvs)))
		tm := metas
		if thorough {
			tm = allMetas(metaValues(false)) // typed x the 7-value set; the 13-value set is covered by the wrapper product
			tm = append(tm, fewMetas()...)
		}
		{
			// simplest metadata first and sequentially: stable minimal witnesses
			st := newStats()
			for vi, v := range tvs {
				st.outcomes[checkTyped(c, st, keys[vi%len(keys)], tm[0], v)]++
			}
			st.flush(c)
		}
		c.ParallelFor(chunks, func(ch int) {
			st := newStats()
			defer st.flush(c)
			for i := ch; i < len(tm); i += chunks {
				if i == 0 {
					continue
				}
				if i%64 == 0 && c.Expired() {
					return
				}
				for vi, v := range tvs {
					st.outcomes[checkTyped(c, st, keys[(i+vi)%len(keys)], tm[i], v)]++
				}
			}
		})
		phase("roundtrip-typed-other-formats")
		{
			fm := fewMetas()
			var live []metaV
			for _, m := range fm {
				if !m.deleted() {
					live = append(live, m)
				}
			}
			{
				st := newStats()
				for vi := range tvs {
					for _, f := range altFormats {
						st.outcomes[checkTypedAlt(c, st, keys[vi%len(keys)], live[0], tvs[vi], f)]++
					}
				}
				st.flush(c)
			}
			c.ParallelFor(len(tvs), func(vi int) {
				st := newStats()
				defer st.flush(c)
				for mi, m := range live {
					if mi == 0 {
						continue
					}
					for _, f := range altFormats {
						st.outcomes[checkTypedAlt(c, st, keys[(vi+mi)%len(keys)], m, tvs[vi], f)]++
					}
				}
			})
		}
		c.Sample(witness{Kind: "wrapper", Key: "db:a:b", Meta: &fewMetas()[2], Format: 128, Payload: "01", Note: "stored form (reference layout) " + hx(refMarshal(fewMetas()[2], 128, []byte{1}))})
		c.Sample(witness{Kind: "typed", Key: "db:k", Meta: &fewMetas()[1], Typed: &tvs[len(tvs)-1]})
		c.Sample(witness{Kind: "wrapper", Key: "db:k", Meta: &fewMetas()[3], Format: dsd.JSON, Payload: hx([]byte(`{"a":1}`)), Note: "deleted: stored form " + hx(refMarshal(fewMetas()[3], dsd.JSON, nil))})

		// ---- (b1) all byte strings of length <= 3 ----
		phase("bytes-len-le-3")
		canon := refMarshal(metaV{C: 1, M: 2}, dsd.JSON, []byte("{}"))
		c.ParallelFor(256, func(b0 int) {
			st := newStats()
			defer st.flush(c)
			buf := make([]byte, 3)
			run := func(b []byte) {
				st.outcomes[checkBytes(c, st, "len<=3", b, canon[len(b):])]++
			}
			if b0 == 0 {
				run(nil)
			}
			buf[0] = byte(b0)
			run(buf[:1])
			for b1 := 0; b1 < 256; b1++ {
				buf[1] = byte(b1)
				run(buf[:2])
				for b2 := 0; b2 < 256; b2++ {
					buf[2] = byte(b2)
					run(buf[:3])
				}
				if c.Expired() {
					return
				}
			}
		})
		c.Sample(witness{Kind: "bytes", Family: "len<=3", Input: "012347"})

		// ---- (b2) short meta sections in every format ----
		phase("short-meta-sections")
		interesting := map[uint8]bool{}
		for _, f := range append(append([]uint8{}, dsdFormats...), '{') { // formats the meta loader knows, and a meta section without format byte
			interesting[f] = true
		}
		tails := [][]byte{nil, []byte("J{}")}
		c.ParallelFor(256*16, func(job int) {
			f, part := job/16, job%16
			st := newStats()
			defer st.flush(c)
			maxBody := 2
			if thorough && interesting[uint8(f)] {
				maxBody = 3
			}
			run := func(body []byte) {
				blk := append([]byte{byte(f)}, body...)
				if f >= 128 {
					blk = append([]byte{byte(f), 0x01}, body...)
				}
				for ti, t := range tails {
					if len(body) == 3 && ti == 0 {
						continue // 3-byte bodies only with a data section behind them
					}
					in := append(append([]byte{1, byte(len(blk))}, blk...), t...)
					st.outcomes[checkBytes(c, st, "short-meta", in, canon[min(len(in), len(canon)):])]++
				}
			}
			if part == 0 {
				run(nil)
			}
			for b0 := part * 16; b0 < part*16+16; b0++ {
				if c.Expired() {
					return
				}
				run([]byte{byte(b0)})
				for b1 := 0; b1 < 256; b1++ {
					run([]byte{byte(b0), byte(b1)})
					if maxBody >= 3 {
						for b2 := 0; b2 < 256; b2++ {
							run([]byte{byte(b0), byte(b1), byte(b2)})
						}
					}
				}
			}
		})
		c.Sample(witness{Kind: "bytes", Family: "short-meta", Input: hx([]byte{1, 3, 74, '{', '}', 74, '{', '}'}), Note: "meta section in JSON"})

		// ---- (b3) boundary block lengths ----
		phase("block-length-boundaries")
		{
			st := newStats()
			seen := map[uint64]bool{}
			for k := uint(0); k <= 64; k++ {
				var base uint64
				if k < 64 {
					base = 1 << k
				}
				for d := uint64(0); d <= 3; d++ {
					for _, l := range []uint64{base + d, base - d} {
						if seen[l] {
							continue
						}
						seen[l] = true
						for n := 0; n <= 3; n++ {
							in := append(append([]byte{1}, refPack(l)...), bytes.Repeat([]byte{71}, n)...)
							st.outcomes[checkBytes(c, st, "block-length", in, canon[2:])]++
						}
					}
				}
			}
			st.flush(c)
		}
		c.Sample(witness{Kind: "bytes", Family: "block-length", Input: hx(append([]byte{1}, append(refPack(1<<63), 71)...)), Note: "claimed block length 2^63, one byte present"})

		// ---- (b4) corruptions of valid encodings ----
		phase("corruptions")
		nBase := vlib.Pick(c, 50, 160)
		bases := baseEncodings(c, nBase)
		c.Extra("valid_encodings_corrupted", int64(len(bases)))
		dedupe := map[[12]byte]struct{}{}
		var kinds = map[string]int64{}
		for bi, b := range bases {
			if c.Expired() {
				break
			}
			type item struct {
				kind     string
				in, tail []byte
			}
			var items []item
			full := vlib.Pick(c, 3, 40)
			pair := 0
			if bi < vlib.Pick(c, 6, 40) {
				full, pair = 40, vlib.Pick(c, 12, 38)
			}
			corruptions(b, full, pair, func(kind string, in, tail []byte) {
				h := sha256.Sum256(in)
				var k [12]byte
				copy(k[:], h[:])
				if _, ok := dedupe[k]; ok {
					return
				}
				dedupe[k] = struct{}{}
				kinds[kind]++
				items = append(items, item{kind, append([]byte{}, in...), tail})
			})
			if bi < 4 {
				c.Sample(map[string]any{"kind": "valid encoding that is corrupted", "what": b.name, "hex": short(b.enc), "variants": len(items)})
			}
			nw := c.Workers
			c.ParallelFor(nw, func(wk int) {
				st := newStats()
				defer st.flush(c)
				for i := wk; i < len(items); i += nw {
					st.outcomes[checkBytes(c, st, "corruption/"+items[i].kind+" of "+b.name, items[i].in, items[i].tail)]++
				}
			})
		}
		for k, v := range kinds {
			c.Extra("corruptions_"+k, v)
		}
	})
}

func replay(c *vlib.Ctx, w witness) {
	st := newStats()
	defer st.flush(c)
	dec := func(s string) []byte {
		b, err := hex.DecodeString(s)
		if err != nil {
			c.EngineError("replay: bad hex %q", s)
		}
		return b
	}
	switch w.Kind {
	case "wrapper":
		if w.Meta == nil {
			c.EngineError("replay: witness without meta")
			return
		}
		fmt.Printf("replaying wrapper key=%q meta=%+v format=%d payload=%s\n", w.Key, *w.Meta, w.Format, w.Payload)
		wr, _ := mkWrapper(w.Key, *w.Meta, w.Format, dec(w.Payload))
		enc, err := wr.MarshalRecord(wr)
		fmt.Printf("  MarshalRecord = %s, err=%v\n", short(enc), err)
		fmt.Printf("  reference layout %s\n", short(refMarshal(*w.Meta, w.Format, dec(w.Payload))))
		fmt.Println("  outcome:", checkWrapper(c, st, w.Key, *w.Meta, w.Format, dec(w.Payload)))
	case "typed":
		if w.Meta == nil || w.Typed == nil {
			c.EngineError("replay: witness without meta/typed value")
			return
		}
		fmt.Printf("replaying typed record key=%q meta=%+v value=%s\n", w.Key, *w.Meta, goStr(*w.Typed))
		fmt.Println("  outcome:", checkTyped(c, st, w.Key, *w.Meta, *w.Typed))
	case "typed-alt":
		if w.Meta == nil || w.Typed == nil {
			c.EngineError("replay: witness without meta/typed value")
			return
		}
		fmt.Printf("replaying typed record in format %d key=%q meta=%+v value=%s\n", w.Format, w.Key, *w.Meta, goStr(*w.Typed))
		fmt.Println("  outcome:", checkTypedAlt(c, st, w.Key, *w.Meta, *w.Typed, w.Format))
	case "bytes":
		in := dec(w.Input)
		fmt.Printf("replaying NewRawWrapper(%s) [%s]\n", short(in), w.Family)
		p := parse("db:k", append([]byte{}, in...))
		fmt.Printf("  result: %s err=%v panic=%v\n", p.class(), p.err, p.panicV)
		if p.err == nil && p.panicV == nil {
			fmt.Printf("  record: meta=%+v format=%d data=%s\n", p.meta, p.format, short(p.data))
		}
		fmt.Println("  outcome:", checkBytes(c, st, w.Family, in, dec(w.Tail)))
	default:
		c.EngineError("replay: unknown witness kind %q", w.Kind)
	}
}
