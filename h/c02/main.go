// C02: every database backend behaves like one reference key -> record store.
//
// Engine Q. Breadth-first search over histories of database.Interface operations,
// for every configuration backend x shadow-delete x cache mode and several
// initial storage contents. Every history is replayed on a wiped real database
// through a fresh Interface and on a plain map (the reference model); after
// every step the step's own result is compared, after the last step the full
// probe (Exists/Get of every key, every query of a fixed query set drained)
// is compared, and maintenance steps are checked against the raw storage.
// States are de-duplicated on (model, raw storage dump, read cache incl. ARC
// lists, delayed write set).
//
// The manual clock is process global, so the work of one BFS level is spread
// over shard processes (vlib.SpawnShards); the parent de-duplicates.
//
// Not in this harness: the iterator error hand-over interleaving clause (engine S).
package main

import (
	"container/list"
	"context"
	"crypto/sha256"
	"encoding/hex"
	"encoding/json"
	"errors"
	"flag"
	"fmt"
	"os"
	"path/filepath"
	"reflect"
	"runtime/pprof"
	"sort"
	"strings"
	"sync"
	"sync/atomic"
	"time"
	"unsafe"

	"github.com/safing/portbase/database"
	"github.com/safing/portbase/database/query"
	"github.com/safing/portbase/database/record"
	"github.com/safing/portbase/database/storage"
	"github.com/safing/portbase/database/storage/badger"
	"github.com/safing/portbase/database/storage/bbolt"
	"github.com/safing/portbase/database/storage/fstree"
	"github.com/safing/portbase/database/storage/hashmap"
	"github.com/safing/portbase/formats/dsd"
	vtime "github.com/safing/portbase/zzverif/vtime"

	"verif/vlib"
)

var (
	flagLevel = flag.String("level", "", "(internal) level file for shard workers")
	flagSucc  = flag.String("succ", "", "(internal) directory for successor files")
	flagOnly  = flag.String("only", "", "restrict configurations: substring of backend/shadow/cache name (development aid)")
	flagDepth = flag.Int("depth", 0, "override the history depth (development aid)")
)

const t0 = int64(1_700_000_000) // start of the manual clock (unix seconds)

// ---------------------------------------------------------------- records

type content struct {
	S string
	I int64
	F float64
	B bool
}

var contents = []content{
	{S: "x", I: 1, F: 1.5, B: true},
	{S: "xy", I: 2, F: 2.5, B: false},
}

type meta struct{ C, M, E, D int64 } // Created, Modified, Expires, Deleted

func (m meta) String() string {
	return fmt.Sprintf("{C:%s M:%s E:%s D:%s}", ts(m.C), ts(m.M), ts(m.E), tsD(m.D))
}

// ts prints a timestamp relative to t0.
func ts(v int64) string {
	if v == 0 {
		return "0"
	}
	return fmt.Sprintf("t0%+d", v-t0)
}

func tsD(v int64) string {
	if v <= 0 {
		return fmt.Sprint(v)
	}
	return ts(v)
}

func (m *meta) update(now int64) {
	m.M = now
	if m.C == 0 {
		m.C = now
	}
	if m.D < 0 {
		m.E = now - m.D
	}
}

// TRec is the typed twin of the wrapped JSON record.
type TRec struct {
	record.Base
	sync.Mutex
	S string
	I int64
	F float64
	B bool
}

func toMeta(m *meta) *record.Meta {
	if m == nil {
		return nil
	}
	return &record.Meta{Created: m.C, Modified: m.M, Expires: m.E, Deleted: m.D}
}

func mkRecord(dbName, k string, ct content, typed bool, pre *meta) record.Record {
	full := dbName + ":" + k
	if typed {
		t := &TRec{S: ct.S, I: ct.I, F: ct.F, B: ct.B}
		t.SetKey(full)
		if pre != nil {
			t.SetMeta(toMeta(pre))
		}
		return t
	}
	b, _ := json.Marshal(ct)
	w, _ := record.NewWrapper(full, toMeta(pre), dsd.JSON, b)
	return w
}

// decoded is what the harness can observe of a record.
type decoded struct {
	kind string // T typed, W wrapped
	key  string
	c    content
	m    meta
	bad  string // decoding problem
}

func decode(r record.Record) decoded {
	var d decoded
	if r == nil {
		d.bad = "nil record"
		return d
	}
	r.Lock()
	defer r.Unlock()
	d.key = r.DatabaseKey()
	if pm := r.Meta(); pm != nil {
		d.m = meta{pm.Created, pm.Modified, pm.Expires, pm.Deleted}
	} else {
		d.bad = "nil meta"
	}
	switch v := r.(type) {
	case *TRec:
		d.kind = "T"
		d.c = content{v.S, v.I, v.F, v.B}
	case *record.Wrapper:
		d.kind = "W"
		if len(v.Data) == 0 {
			if d.m.D <= 0 {
				d.bad = "no data"
			}
			break
		}
		if v.Format != dsd.JSON {
			d.bad = fmt.Sprintf("format %d", v.Format)
			break
		}
		if err := json.Unmarshal(v.Data, &d.c); err != nil {
			d.bad = "json: " + err.Error()
		}
	default:
		d.bad = fmt.Sprintf("record type %T", r)
	}
	return d
}

func (d decoded) String() string {
	if d.bad != "" {
		return fmt.Sprintf("%s[%s BAD:%s %v]", d.kind, d.key, d.bad, d.m)
	}
	return fmt.Sprintf("%s[%s %+v %v]", d.kind, d.key, d.c, d.m)
}

// ---------------------------------------------------------------- reference model

type entry struct {
	c content
	m meta
}

type model struct {
	now   int64
	recs  map[string]*entry
	dirty bool // delayed writes since the last flush
	// held: what the caller knows about the record object it put last under a key (content, metadata as stamped by
	// that put). Forgotten when an operation that may change the object behind the caller's back on some backends
	// only (Delete, expiry setters, Renew, Purge work on the stored/cached object, which is the caller's object on
	// hashmap and behind a cache) touches the key, so that the model stays the same for all backends.
	held map[string]*entry
}

func (m *model) hold(k string, e *entry) {
	if m.held == nil {
		m.held = map[string]*entry{}
	}
	m.held[k] = &entry{e.c, e.m}
}

func (m *model) forget(k string) { delete(m.held, k) }

func (m *model) visible(k string) *entry {
	e := m.recs[k]
	if e == nil || e.m.D > 0 {
		return nil
	}
	if e.m.E > 0 && e.m.E < m.now {
		return nil
	}
	return e
}

func (m *model) dump() string {
	keys := make([]string, 0, len(m.recs))
	for k := range m.recs {
		keys = append(keys, k)
	}
	sort.Strings(keys)
	var sb strings.Builder
	fmt.Fprintf(&sb, "now=%s dirty=%v", ts(m.now), m.dirty)
	for _, k := range keys {
		e := m.recs[k]
		fmt.Fprintf(&sb, " %s=%+v%v", k, e.c, e.m)
	}
	hk := make([]string, 0, len(m.held))
	for k := range m.held {
		hk = append(hk, k)
	}
	sort.Strings(hk)
	for _, k := range hk {
		fmt.Fprintf(&sb, " held(%s)=%+v%v", k, m.held[k].c, m.held[k].m)
	}
	return sb.String()
}

// ---------------------------------------------------------------- configurations, seeds, queries

type config struct {
	Backend string `json:"backend"`
	Shadow  bool   `json:"shadow_delete"`
	Cache   string `json:"cache"` // none | read | delayed
}

func (c config) String() string {
	s := "immediate"
	if c.Shadow {
		s = "shadow"
	}
	return c.Backend + "/" + s + "/" + c.Cache
}

func allConfigs(c *vlib.Ctx) []config {
	backends := []string{"hashmap", "bbolt", "fstree"}
	if !c.Quick() {
		backends = append(backends, "badger")
	}
	var out []config
	for _, b := range backends {
		for _, sh := range []bool{false, true} {
			for _, ca := range []string{"none", "read", "delayed"} {
				if ca == "delayed" && (b == "fstree" || b == "badger") {
					continue // delayed writes need a backend with batch support; DelayedCacheWriter refuses to run otherwise
				}
				cf := config{b, sh, ca}
				if *flagOnly != "" && !strings.Contains(cf.String(), *flagOnly) {
					continue
				}
				out = append(out, cf)
			}
		}
	}
	return out
}

func keysFor(backend string) []string {
	if backend == "fstree" {
		return []string{"ab", "a/b", "a/c", "b"} // no key is both file and directory
	}
	return []string{"a", "ab", "a/b", "b"}
}

type seedDef struct {
	name string
	recs map[string]entry // initial storage content (written to the storage before the interface exists)
	// pre: operations run through the interface under test before the explored history starts (non-initial
	// interface states: pending delayed writes, evictions, a full cache). They are executed and checked like any step.
	pre      func(keys []string) []string
	caches   string // cache modes the seed is used with ("" = all)
	backends string // backends the seed is used with ("" = all)
}

func (sd seedDef) usedWith(cfg config) bool {
	return (sd.caches == "" || strings.Contains(sd.caches, cfg.Cache)) && (sd.backends == "" || strings.Contains(sd.backends, cfg.Backend))
}

// prefix resolves the seed's interface prefix to operation indexes of ops.
func (sd seedDef) prefix(cfg config, ops []opDef) ([]int, error) {
	if sd.pre == nil {
		return nil, nil
	}
	var out []int
	for _, n := range sd.pre(keysFor(cfg.Backend)) {
		found := -1
		for i, o := range ops {
			if o.name == n {
				found = i
				break
			}
		}
		if found < 0 {
			return nil, fmt.Errorf("seed %s: no operation %q in configuration %v", sd.name, n, cfg)
		}
		out = append(out, found)
	}
	return out, nil
}

var seeds = []seedDef{
	{name: "empty"},
	{name: "live(a/b)", recs: map[string]entry{"a/b": {contents[0], meta{C: t0 - 100, M: t0 - 100}}}},
	{name: "shadow-deleted(a/b)", recs: map[string]entry{"a/b": {contents[0], meta{C: t0 - 100, M: t0 - 50, D: t0 - 50}}}},
	{name: "expired(a/b)", recs: map[string]entry{"a/b": {contents[0], meta{C: t0 - 100, M: t0 - 100, E: t0 - 50}}}},
	{name: "relative-expiry(a/b)", recs: map[string]entry{"a/b": {contents[1], meta{C: t0 - 5, M: t0 - 5, E: t0 + 5, D: -10}}}},
	// non-initial interface states (cache size is 2)
	{name: "iface:three-puts-oldest-evicted", caches: "read,delayed", pre: func(k []string) []string {
		return []string{"Put(" + k[0] + ",c1,typed)", "Put(" + k[1] + ",c2,wrapped)", "Put(" + k[2] + ",c1,typed)"}
	}},
	{name: "iface:put+cached-get-of-another-key", caches: "delayed", recs: map[string]entry{"a/b": {contents[0], meta{C: t0 - 100, M: t0 - 100}}},
		pre: func(k []string) []string { return []string{"Put(" + k[0] + ",c2,wrapped)", "Get(a/b)"} }},
	{name: "iface:cache-full-of-read-entries", caches: "read,delayed", recs: map[string]entry{
		"a/b": {contents[0], meta{C: t0 - 100, M: t0 - 100}}, "b": {contents[1], meta{C: t0 - 90, M: t0 - 90}}},
		pre: func(k []string) []string { return []string{"Get(a/b)", "Get(b)"} }},
	// the caller holds a record object with a relative TTL that is stored (hashmap: that very object is the stored one)
	{name: "iface:put-with-relative-ttl", caches: "none,read", backends: "hashmap", pre: func(k []string) []string {
		return []string{"Put(" + k[0] + ",c2,wrapped,ttl=10)"}
	}},
}

type qdef struct {
	name   string
	prefix string
	pclass string
	cond   func() query.Condition
	match  func(c content) bool
}

var queries = []qdef{
	{"prefix ''", "", "empty-prefix", nil, nil},
	{"prefix 'a'", "a", "prefix-inside-path-segment", nil, nil},
	{"prefix 'a/'", "a/", "prefix-at-path-boundary", nil, nil},
	{"prefix 'a/b'", "a/b", "prefix-is-full-key", nil, nil},
	{"prefix 'b'", "b", "prefix-is-full-key", nil, nil},
	{"'' where I == 1", "", "empty-prefix", func() query.Condition { return query.Where("I", query.Equals, 1) },
		func(c content) bool { return c.I == 1 }},
	{"'a' where I > 1", "a", "prefix-inside-path-segment", func() query.Condition { return query.Where("I", query.GreaterThan, 1) },
		func(c content) bool { return c.I > 1 }},
	{"'' where F f< 2", "", "empty-prefix", func() query.Condition { return query.Where("F", query.FloatLessThan, 2.0) },
		func(c content) bool { return c.F < 2 }},
	{"'' where S sameas x", "", "empty-prefix", func() query.Condition { return query.Where("S", query.SameAs, "x") },
		func(c content) bool { return c.S == "x" }},
	{"'' where S contains y", "", "empty-prefix", func() query.Condition { return query.Where("S", query.Contains, "y") },
		func(c content) bool { return strings.Contains(c.S, "y") }},
	{"'' where S in xy,z", "", "empty-prefix", func() query.Condition { return query.Where("S", query.In, []string{"xy", "z"}) },
		func(c content) bool { return c.S == "xy" || c.S == "z" }},
	{"'' where S matches ^x$", "", "empty-prefix", func() query.Condition { return query.Where("S", query.Matches, "^x$") },
		func(c content) bool { return c.S == "x" }},
	{"'' where B is true", "", "empty-prefix", func() query.Condition { return query.Where("B", query.Is, true) },
		func(c content) bool { return c.B }},
	{"'' where Nope exists", "", "empty-prefix", func() query.Condition { return query.Where("Nope", query.Exists, nil) },
		func(c content) bool { return false }},
	{"'' where S exists", "", "empty-prefix", func() query.Condition { return query.Where("S", query.Exists, nil) },
		func(c content) bool { return true }},
	{"'a' where (I >= 1 and not S sameas x)", "a", "prefix-inside-path-segment", func() query.Condition {
		return query.And(query.Where("I", query.GreaterThanOrEqual, 1), query.Not(query.Where("S", query.SameAs, "x")))
	}, func(c content) bool { return c.I >= 1 && !(c.S == "x") }},
	{"'' where (S startswith xy or (B is true and F f<= 1.0))", "", "empty-prefix", func() query.Condition {
		return query.Or(query.Where("S", query.StartsWith, "xy"), query.And(query.Where("B", query.Is, true), query.Where("F", query.FloatLessThanOrEqual, 1.0)))
	}, func(c content) bool { return strings.HasPrefix(c.S, "xy") || (c.B && c.F <= 1.0) }},
	{"'' where not (I < 1 or S endswith y)", "", "empty-prefix", func() query.Condition {
		return query.Not(query.Or(query.Where("I", query.LessThan, 1), query.Where("S", query.EndsWith, "y")))
	}, func(c content) bool { return !(c.I < 1 || strings.HasSuffix(c.S, "y")) }},
	{"'a/' where (I <= 2 and F f>= 1.5 and (F f== 2.5 or F f> 100))", "a/", "prefix-at-path-boundary", func() query.Condition {
		return query.And(query.Where("I", query.LessThanOrEqual, 2), query.Where("F", query.FloatGreaterThanOrEqual, 1.5),
			query.Or(query.Where("F", query.FloatEquals, 2.5), query.Where("F", query.FloatGreaterThan, 100)))
	}, func(c content) bool { return c.I <= 2 && c.F >= 1.5 && (c.F == 2.5 || c.F > 100) }},
}

func (q qdef) build(dbName string) *query.Query {
	qq := query.New(dbName + ":" + q.prefix)
	if q.cond != nil {
		qq = qq.Where(q.cond())
	}
	return qq
}

func (q qdef) matches(k string, e *entry) bool {
	if !strings.HasPrefix(k, q.prefix) {
		return false
	}
	return q.match == nil || q.match(e.c)
}

// ---------------------------------------------------------------- real databases (one per backend x shadow per process)

type dbEnv struct {
	backend string
	shadow  bool
	name    string
	ctrl    *database.Controller
	st      storage.Interface
	wipes   int
}

var (
	rootDir  string
	envs     = map[string]*dbEnv{}
	initOnce sync.Once
	initErr  error
)

func getEnv(backend string, shadow bool) (*dbEnv, error) {
	initOnce.Do(func() {
		base := ""
		if fi, err := os.Stat("/dev/shm"); err == nil && fi.IsDir() {
			base = "/dev/shm"
		}
		rootDir, initErr = os.MkdirTemp(base, "verif-c02-")
		if initErr != nil {
			return
		}
		// fstree stages its writes in os.TempDir() if that is on the same mount as the database, otherwise in the
		// record's own directory. Point TMPDIR at a directory that does not exist: staging then always happens next to
		// the record (no probing of /tmp on disk for every write, and no cross-directory renames, which serialise all
		// processes on one file system wide lock).
		_ = os.Setenv("TMPDIR", filepath.Join(rootDir, "no-such-dir"))
		initErr = database.InitializeWithPath(rootDir)
	})
	if initErr != nil {
		return nil, initErr
	}
	name := "c02-" + backend
	if shadow {
		name += "-shadow"
	} else {
		name += "-immediate"
	}
	if e, ok := envs[name]; ok {
		return e, nil
	}
	if _, err := database.Register(&database.Database{Name: name, Description: "verif", StorageType: backend, ShadowDelete: shadow}); err != nil {
		return nil, err
	}
	ctrl, err := database.VerifController(name)
	if err != nil {
		return nil, err
	}
	e := &dbEnv{backend: backend, shadow: shadow, name: name, ctrl: ctrl, st: ctrl.VerifStorage()}
	if b, ok := unwrapStore(e.st).(*bbolt.BBolt); ok {
		b.VerifNoBatchDelay()
	}
	envs[name] = e
	return e, nil
}

func cleanupEnvs() {
	for _, e := range envs {
		_ = e.st.Shutdown()
	}
	if rootDir != "" {
		_ = os.RemoveAll(rootDir)
	}
}

// wipe brings the storage back to the state of a freshly created database.
func (e *dbEnv) wipe() error {
	switch s := unwrapStore(e.st).(type) {
	case *hashmap.HashMap:
		s.VerifWipe()
		return nil
	case *bbolt.BBolt:
		return s.VerifWipe()
	case *badger.Badger:
		// deleting keys leaves tombstones and old versions behind, which slow badger down more and more: drop everything now and then
		e.wipes++
		if e.wipes%128 == 0 {
			return s.VerifDropAll()
		}
		return s.VerifWipe()
	case *fstree.FSTree:
		base := s.VerifBasePath()
		ents, err := os.ReadDir(base)
		if err != nil {
			return err
		}
		for _, en := range ents {
			if err := os.RemoveAll(filepath.Join(base, en.Name())); err != nil {
				return err
			}
		}
		return nil
	}
	return fmt.Errorf("unknown storage %T", e.st)
}

// raw returns the physical contents: key -> canonical text of the stored value.
func (e *dbEnv) raw() (map[string]string, error) {
	out := map[string]string{}
	switch s := unwrapStore(e.st).(type) {
	case *hashmap.HashMap:
		for k, r := range s.VerifDump() {
			out[k] = decode(r).String()
		}
	case *bbolt.BBolt:
		m, err := s.VerifDump()
		if err != nil {
			return nil, err
		}
		for k, v := range m {
			out[k] = hex.EncodeToString(v)
		}
	case *badger.Badger:
		m, err := s.VerifDump()
		if err != nil {
			return nil, err
		}
		for k, v := range m {
			out[k] = hex.EncodeToString(v)
		}
	case *fstree.FSTree:
		base := s.VerifBasePath()
		err := filepath.Walk(base, func(p string, fi os.FileInfo, err error) error {
			if err != nil {
				return err
			}
			if fi.IsDir() {
				return nil
			}
			b, err := os.ReadFile(p)
			if err != nil {
				return err
			}
			rel, _ := filepath.Rel(base, p)
			out[filepath.ToSlash(rel)] = hex.EncodeToString(b)
			return nil
		})
		if err != nil {
			return nil, err
		}
	default:
		return nil, fmt.Errorf("unknown storage %T", e.st)
	}
	return out, nil
}

func dumpMap(m map[string]string) string {
	keys := make([]string, 0, len(m))
	for k := range m {
		keys = append(keys, k)
	}
	sort.Strings(keys)
	var sb strings.Builder
	for _, k := range keys {
		fmt.Fprintf(&sb, "%s=%s;", k, m[k])
	}
	return sb.String()
}

// ---------------------------------------------------------------- read cache access (gcache ARC, private fields)

type vclock struct{}

func (vclock) Now() time.Time { return vtime.Now() }

func unexported(v reflect.Value, name string) reflect.Value {
	f := v.FieldByName(name)
	if !f.IsValid() {
		panic("verif: gcache field " + name + " not found")
	}
	return reflect.NewAt(f.Type(), unsafe.Pointer(f.UnsafeAddr())).Elem()
}

// setCacheClock makes the read cache's entry expiry follow the manual clock
// (gcache is third-party code and would otherwise keep the real clock).
func setCacheClock(iface *database.Interface) {
	c := iface.VerifCache()
	if c == nil {
		return
	}
	arc := reflect.ValueOf(c).Elem()
	unexported(arc, "clock").Set(reflect.ValueOf(vclock{}))
}

func listKeys(arc reflect.Value, name string) string {
	al := unexported(arc, name).Elem()
	l := unexported(al, "l").Interface().(*list.List)
	var ks []string
	for e := l.Front(); e != nil; e = e.Next() {
		ks = append(ks, fmt.Sprint(e.Value))
	}
	return name + "=[" + strings.Join(ks, ",") + "]"
}

func dumpCache(iface *database.Interface) string {
	c := iface.VerifCache()
	if c == nil {
		return ""
	}
	arc := reflect.ValueOf(c).Elem()
	var sb strings.Builder
	fmt.Fprintf(&sb, "part=%d %s %s %s %s items:", unexported(arc, "part").Int(), listKeys(arc, "t1"), listKeys(arc, "t2"), listKeys(arc, "b1"), listKeys(arc, "b2"))
	items := unexported(arc, "items")
	var lines []string
	it := items.MapRange()
	for it.Next() {
		item := it.Value().Elem()
		val := unexported(item, "value").Interface()
		exp := unexported(item, "expiration").Interface().(*time.Time)
		es := "-"
		if exp != nil {
			es = ts(exp.Unix())
		}
		rs := fmt.Sprintf("%T", val)
		if r, ok := val.(record.Record); ok {
			rs = decode(r).String()
		}
		lines = append(lines, fmt.Sprintf("%v=%s exp=%s", it.Key().Interface(), rs, es))
	}
	sort.Strings(lines)
	sb.WriteString(strings.Join(lines, ";"))
	wc := iface.VerifWriteCache()
	lines = lines[:0]
	for k, r := range wc {
		lines = append(lines, k+"="+decode(r).String())
	}
	sort.Strings(lines)
	sb.WriteString(" writecache:" + strings.Join(lines, ";"))
	return sb.String()
}

// ---------------------------------------------------------------- one execution

type exec struct {
	cfg   config
	env   *dbEnv
	iface *database.Interface
	keys  []string
	now   int64
	held  map[string]record.Record // the object of the last Put/PutNew per key, kept by the caller (for PutAgain)
}

// tracksHeld: in the quick tier only the keys that have a PutAgain operation need their last object remembered.
func tracksHeld(quick bool, keys []string, k string) bool {
	return !quick || k == keys[0]
}

func (x *exec) hold(k string, r record.Record) {
	if x.held == nil {
		x.held = map[string]record.Record{}
	}
	x.held[k] = r
}

func (x *exec) forget(k string) { delete(x.held, k) }

func (x *exec) full(k string) string { return x.env.name + ":" + k }

// result of one operation, on either side.
type result struct {
	cls string // ok | found | notfound | notimpl | count | error
	d   decoded
	n   int
	nLo int // model only: accepted count range [nLo, n]
	err string
}

func (r result) String() string {
	switch r.cls {
	case "found":
		return "found " + r.d.String()
	case "count":
		return fmt.Sprintf("count %d", r.n)
	case "error":
		return "error: " + r.err
	}
	return r.cls
}

func errResult(err error) result {
	switch {
	case err == nil:
		return result{cls: "ok"}
	case errors.Is(err, database.ErrNotFound):
		return result{cls: "notfound"}
	case errors.Is(err, database.ErrNotImplemented):
		return result{cls: "notimpl"}
	}
	return result{cls: "error", err: err.Error()}
}

func (x *exec) get(k string) result {
	r, err := x.iface.Get(x.full(k))
	if err != nil {
		return errResult(err)
	}
	return result{cls: "found", d: decode(r)}
}

func modelGet(m *model, k string) result {
	e := m.visible(k)
	if e == nil {
		return result{cls: "notfound"}
	}
	return result{cls: "found", d: decoded{key: k, c: e.c, m: e.m}}
}

// opDef is one letter of the alphabet.
type opDef struct {
	name      string
	kind      string
	needClean bool // delayed write configuration: only offered while no delayed write is pending
	mutates   bool
	run       func(x *exec) result
	ref       func(m *model) result
	forget    string // key whose held object is forgotten after the step ("*": all): see model.held
}

func keyOfOp(name string) string {
	i := strings.Index(name, "(")
	rest := name[i+1:]
	if j := strings.IndexAny(rest, ",)"); j >= 0 {
		return rest[:j]
	}
	return rest
}

type putVariant struct {
	name  string
	ci    int
	typed bool
}

type batchItem struct {
	key     string
	ci      int
	typed   bool
	deleted bool
}

func buildOps(cfg config, quick bool) []opDef {
	keys := keysFor(cfg.Backend)
	var ops []opDef
	add := func(o opDef) {
		switch o.kind {
		case "Delete", "SetAbsoluteExpiry", "SetRelativateExpiry", "Renew":
			o.forget = keyOfOp(o.name)
		case "Purge":
			o.forget = "*"
		}
		ops = append(ops, o)
	}

	// quick tier: the metadata-only operations (Resave, Put of a deleted record, expiry setters) are offered on the first
	// key and on the key of the storage seeds only; they address a record by its exact key, the other keys add nothing
	mainKey := func(k string) bool { return !quick || k == keys[0] || k == "a/b" }
	// --- observers first
	for _, k := range keys {
		k := k
		add(opDef{name: "Get(" + k + ")", kind: "Get",
			run: func(x *exec) result { return x.get(k) },
			ref: func(m *model) result { return modelGet(m, k) }})
	}
	// --- Put / PutNew
	variants := []putVariant{{"c1,typed", 0, true}, {"c2,wrapped", 1, false}}
	if !quick {
		variants = append(variants, putVariant{"c1,wrapped", 0, false}, putVariant{"c2,typed", 1, true})
	}
	variants = append(variants, putVariant{"c1,typed,expires=now+10", 0, true})
	for ki, k := range keys {
		kvariants := variants
		if !quick || ki == 0 {
			// a record with a relative TTL (the caller has called Meta().SetRelativateExpiry before Put)
			kvariants = append(append([]putVariant{}, variants...), putVariant{"c2,wrapped,ttl=10", 1, false})
			if !quick {
				kvariants = append(kvariants, putVariant{"c1,typed,ttl=10", 0, true})
			}
		}
		for _, v := range kvariants {
			k, v := k, v
			withExpiry := strings.Contains(v.name, "expires")
			withTTL := strings.Contains(v.name, "ttl")
			add(opDef{name: "Put(" + k + "," + v.name + ")", kind: "Put", mutates: true,
				run: func(x *exec) result {
					var pre *meta
					if withExpiry {
						pre = &meta{E: x.now + 10} // the caller has called Meta().SetAbsoluteExpiry before Put
					}
					if withTTL {
						pre = &meta{D: -10}
					}
					r := mkRecord(x.env.name, k, contents[v.ci], v.typed, pre)
					if tracksHeld(quick, keys, k) {
						x.hold(k, r)
					}
					return errResult(x.iface.Put(r))
				},
				ref: func(m *model) result {
					e := &entry{c: contents[v.ci]}
					if withExpiry {
						e.m.E = m.now + 10
					}
					if withTTL {
						e.m.D = -10
					}
					e.m.update(m.now)
					m.recs[k] = e
					if tracksHeld(quick, keys, k) {
						m.hold(k, e)
					}
					m.dirty = true
					return result{cls: "ok"}
				}})
		}
	}
	for _, k := range keys {
		if !mainKey(k) {
			continue
		}
		k := k
		// a record that is already marked deleted (how callers delete a record they hold: Meta().Delete(), then Put)
		add(opDef{name: "Put(" + k + ",c1,wrapped,deleted)", kind: "PutDeleted", mutates: true, needClean: true,
			run: func(x *exec) result {
				pre := &meta{C: x.now - 30, M: x.now - 20, D: x.now - 20}
				return errResult(x.iface.Put(mkRecord(x.env.name, k, contents[0], false, pre)))
			},
			ref: func(m *model) result {
				e := &entry{c: contents[0], m: meta{C: m.now - 30, M: m.now - 20, D: m.now - 20}}
				e.m.update(m.now)
				m.recs[k] = e
				return result{cls: "ok"}
			}})
	}
	// PutNew of a record object that carries stale metadata: put-new always yields a live record with fresh metadata.
	// The stale classes: old timestamps and expired; deleted in the past; relative TTL with an expiry in the future; an
	// absolute expiry in the future. Quick: one class per key; thorough: every class on every key.
	type staleClass struct {
		name string
		m    func(now int64) meta
	}
	stale := []staleClass{
		{"old+expired", func(now int64) meta { return meta{C: t0 - 1000, M: t0 - 900, E: t0 - 800} }},
		{"deleted-before", func(now int64) meta { return meta{C: t0 - 1000, M: now - 20, D: now - 20} }},
		{"relative-ttl", func(now int64) meta { return meta{C: t0 - 1000, M: now - 5, E: now + 5, D: -10} }},
		{"expires-later", func(now int64) meta { return meta{C: now - 50, M: now - 50, E: now + 10} }},
	}
	for i, k := range keys {
		for si, sc := range stale {
			if quick && si != i%len(stale) {
				continue
			}
			k, sc := k, sc
			ci, typed := (i+si)%2, (i+si/2)%2 == 0
			add(opDef{name: fmt.Sprintf("PutNew(%s,c%d,%s,stale:%s)", k, ci+1, kindName(typed), sc.name), kind: "PutNew", mutates: true,
				run: func(x *exec) result {
					pre := sc.m(x.now)
					r := mkRecord(x.env.name, k, contents[ci], typed, &pre)
					if tracksHeld(quick, keys, k) {
						x.hold(k, r)
					}
					return errResult(x.iface.PutNew(r))
				},
				ref: func(m *model) result {
					e := &entry{c: contents[ci]}
					e.m.update(m.now)
					m.recs[k] = e
					if tracksHeld(quick, keys, k) {
						m.hold(k, e)
					}
					m.dirty = true
					return result{cls: "ok"}
				}})
		}
	}
	// --- PutAgain: put again the record object that the caller put last under this key (object identity across
	// everything that happened in between, maintenance in particular: hashmap stores the caller's object, the caches
	// hold it). A put always yields the record as the caller knows it, freshly stamped; a relative TTL restarts.
	for i, k := range keys {
		if !tracksHeld(quick, keys, k) {
			continue
		}
		_ = i
		k := k
		add(opDef{name: "PutAgain(" + k + ")", kind: "PutAgain", mutates: true,
			run: func(x *exec) result {
				r := x.held[k]
				if r == nil {
					return result{cls: "noobject"}
				}
				return errResult(x.iface.Put(r))
			},
			ref: func(m *model) result {
				h := m.held[k]
				if h == nil {
					return result{cls: "noobject"}
				}
				e := &entry{h.c, h.m}
				e.m.update(m.now)
				m.recs[k] = e
				m.hold(k, e)
				m.dirty = true
				return result{cls: "ok"}
			}})
	}
	// --- Renew: get a record, delete it through the interface, then PutNew the object obtained by Get (object reuse
	// after Delete: with hashmap or behind a cache that object is the one the Delete marked as deleted)
	for i, k := range keys {
		if quick && i != 0 && k != "a/b" {
			continue // quick: the first key and the key of the storage seeds
		}
		k := k
		add(opDef{name: "Renew(" + k + ")", kind: "Renew", mutates: true,
			run: func(x *exec) result {
				r, err := x.iface.Get(x.full(k))
				if err != nil {
					return errResult(err)
				}
				if err := x.iface.Delete(x.full(k)); err != nil {
					return result{cls: "error", err: "Delete after Get: " + err.Error()}
				}
				return errResult(x.iface.PutNew(r))
			},
			ref: func(m *model) result {
				e := m.visible(k)
				if e == nil {
					return result{cls: "notfound"}
				}
				e.m = meta{}
				e.m.update(m.now)
				m.dirty = true
				return result{cls: "ok"}
			}})
	}
	// --- Resave: get a record and put the same object back (the usual update cycle; refreshes a relative expiry)
	for _, k := range keys {
		if !mainKey(k) {
			continue
		}
		k := k
		add(opDef{name: "Resave(" + k + ")", kind: "Resave", mutates: true,
			run: func(x *exec) result {
				r, err := x.iface.Get(x.full(k))
				if err != nil {
					return errResult(err)
				}
				return errResult(x.iface.Put(r))
			},
			ref: func(m *model) result {
				e := m.visible(k)
				if e == nil {
					return result{cls: "notfound"}
				}
				e.m.update(m.now)
				m.dirty = true
				return result{cls: "ok"}
			}})
	}
	// --- Delete
	for _, k := range keys {
		k := k
		add(opDef{name: "Delete(" + k + ")", kind: "Delete", mutates: true,
			run: func(x *exec) result { return errResult(x.iface.Delete(x.full(k))) },
			ref: func(m *model) result {
				e := m.visible(k)
				if e == nil {
					return result{cls: "notfound"}
				}
				e.m.update(m.now)
				e.m.D = m.now
				return result{cls: "ok"}
			}})
	}
	// --- expiry setting
	for _, k := range keys {
		if !mainKey(k) {
			continue
		}
		for _, off := range []int64{-5, 10} {
			k, off := k, off
			add(opDef{name: fmt.Sprintf("SetAbsoluteExpiry(%s,now%+d)", k, off), kind: "SetAbsoluteExpiry", mutates: true, needClean: true,
				run: func(x *exec) result { return errResult(x.iface.SetAbsoluteExpiry(x.full(k), x.now+off)) },
				ref: func(m *model) result {
					e := m.visible(k)
					if e == nil {
						return result{cls: "notfound"}
					}
					e.m.update(m.now)
					e.m.E = m.now + off
					e.m.D = 0
					return result{cls: "ok"}
				}})
		}
		for _, ttl := range []int64{10, 0} { // 0 switches a relative expiry off (record/meta.go: seconds >= 0)
			k, ttl := k, ttl
			add(opDef{name: fmt.Sprintf("SetRelativateExpiry(%s,%d)", k, ttl), kind: "SetRelativateExpiry", mutates: true, needClean: true,
				run: func(x *exec) result { return errResult(x.iface.SetRelativateExpiry(x.full(k), ttl)) },
				ref: func(m *model) result {
					e := m.visible(k)
					if e == nil {
						return result{cls: "notfound"}
					}
					e.m.update(m.now)
					e.m.D = -ttl
					return result{cls: "ok"}
				}})
		}
	}
	// --- PutMany: batches of two, one of them a deleted record
	batches := [][]batchItem{
		{{keys[0], 1, true, false}, {keys[1], 0, false, true}},
		{{keys[2], 0, true, true}, {keys[3], 0, false, false}},
	}
	for bi, b := range batches {
		b := b
		var parts []string
		for _, it := range b {
			s := fmt.Sprintf("%s=c%d,%s", it.key, it.ci+1, kindName(it.typed))
			if it.deleted {
				s = it.key + "=deleted," + kindName(it.typed)
			}
			parts = append(parts, s)
		}
		_ = bi
		add(opDef{name: "PutMany(" + strings.Join(parts, ";") + ")", kind: "PutMany", mutates: true, needClean: true,
			run: func(x *exec) result {
				put := x.iface.PutMany(x.env.name)
				if _, ok := x.env.st.(storage.Batcher); !ok {
					// same support check as DelayedCacheWriter: end the batch immediately
					return errResult(put(nil))
				}
				for _, it := range b {
					var pre *meta
					if it.deleted {
						pre = &meta{C: x.now - 30, M: x.now - 20, D: x.now - 20}
					}
					if err := put(mkRecord(x.env.name, it.key, contents[it.ci], it.typed, pre)); err != nil {
						return errResult(err)
					}
				}
				return errResult(put(nil))
			},
			ref: func(m *model) result {
				for _, it := range b {
					e := &entry{c: contents[it.ci]}
					if it.deleted {
						e.m = meta{C: m.now - 30, M: m.now - 20, D: m.now - 20}
					}
					e.m.update(m.now)
					m.recs[it.key] = e
				}
				return result{cls: "ok"}
			}})
	}
	// --- Purge
	for _, qi := range []int{1, 5} {
		q := queries[qi]
		add(opDef{name: "Purge(" + q.name + ")", kind: "Purge", mutates: true, needClean: true,
			run: func(x *exec) result {
				n, err := x.iface.Purge(context.Background(), q.build(x.env.name))
				if err != nil {
					return errResult(err)
				}
				return result{cls: "count", n: n}
			},
			ref: func(m *model) result {
				lo, hi := 0, 0
				for k, e := range m.recs {
					if !q.matches(k, e) || e.m.D > 0 {
						continue
					}
					if m.visible(k) != nil {
						lo++
					}
					hi++ // an expired, not yet deleted record may or may not be counted
					e.m.D = m.now
				}
				return result{cls: "count", n: hi, nLo: lo}
			}})
	}
	// --- time
	for _, d := range []int64{10, 20} {
		d := d
		add(opDef{name: fmt.Sprintf("%ds pass", d), kind: "TimePasses", mutates: true,
			run: func(x *exec) result {
				vtime.AdvanceManual(time.Duration(d) * time.Second)
				x.now += d
				return result{cls: "ok"}
			},
			ref: func(m *model) result { m.now += d; return result{cls: "ok"} }})
	}
	// --- maintenance (the raw storage comparison is done by the step runner)
	for _, off := range []int64{0, 15} {
		off := off
		add(opDef{name: fmt.Sprintf("MaintainRecordStates(purgeDeletedBefore=now-%d)", off), kind: "MaintainRecordStates", needClean: true,
			run: func(x *exec) result {
				return errResult(x.env.ctrl.MaintainRecordStates(context.Background(), time.Unix(x.now-off, 0)))
			},
			ref: func(m *model) result { return result{cls: "ok"} }})
	}
	if !quick || cfg.Backend == "badger" { // only badger implements Maintain
		add(opDef{name: "Maintain", kind: "Maintain", needClean: true,
			run: func(x *exec) result { return errResult(x.env.ctrl.Maintain(context.Background())) },
			ref: func(m *model) result { return result{cls: "ok"} }})
	}
	// --- flush of delayed writes: one DelayedCacheWriter run that is ended by its context
	if cfg.Cache == "delayed" {
		// the exported flush; the step runner checks that no delayed write is left pending
		add(opDef{name: "FlushCache", kind: "FlushCache",
			run: func(x *exec) result { x.iface.FlushCache(); return result{cls: "ok"} },
			ref: func(m *model) result { m.dirty = false; return result{cls: "ok"} }})
		add(opDef{name: "Flush", kind: "Flush",
			run: func(x *exec) result { return errResult(flush(x.iface)) },
			ref: func(m *model) result { m.dirty = false; return result{cls: "ok"} }})
	}
	return ops
}

func kindName(typed bool) string {
	if typed {
		return "typed"
	}
	return "wrapped"
}

func flush(iface *database.Interface) error {
	ctx, cancel := context.WithCancel(context.Background())
	cancel()
	return iface.DelayedCacheWriter(ctx)
}

// ---------------------------------------------------------------- violations

type witness struct {
	Config  config   `json:"config"`
	Seed    string   `json:"seed"`
	History []string `json:"history"`
}

// anyWitness is what a replay file may hold: a history witness or a scenario witness.
type anyWitness struct {
	witness
	Scenario string `json:"scenario"`
	N        int    `json:"n"`
	Variant  string `json:"variant"`
}

type violation struct {
	clause, site, disc, detail string
}

func diffResult(got, want result) string {
	if got.cls != want.cls {
		return want.cls + "→" + got.cls
	}
	switch want.cls {
	case "found":
		if got.d.bad != "" {
			return "found→undecodable-record"
		}
		if got.d.key != want.d.key {
			return "found→wrong-key"
		}
		if got.d.c != want.d.c {
			return "found→other-data"
		}
		if got.d.m != want.d.m {
			return "found→other-metadata"
		}
	case "count":
		if got.n < want.nLo || got.n > want.n {
			return "count→other-count"
		}
	}
	return ""
}

// ---------------------------------------------------------------- running a history

type runOut struct {
	key     string // canonical state (empty if the run ended in a violation)
	outcome string // outcome class of the last step
	viol    *violation
	log     []string
	nontriv bool
	evicted int // pending delayed writes that the last step (for a root: the seed's prefix) pushed out of the cache
}

var progress atomic.Int64 // watchdog
var current atomic.Value  // what is being executed (for the watchdog message)

type running struct {
	cfg, seed string
	history   []string
}

// starved reports whether a violation stems from one of the implementation's own wall-clock timeouts
// (query executors give up when the consumer does not take a record within 1 s, PutMany when no record
// arrives within 1 s). The harness always drains and feeds immediately, so these can only fire when the
// process is starved of CPU: such a run is inconclusive, never a finding.
func starved(v *violation) bool {
	return v != nil && v.clause != "ENGINE" && strings.Contains(v.detail, "timeout")
}

// runHistory runs runHistoryOnce and repeats an inconclusive (starved) run.
func runHistory(cfg config, seed seedDef, ops []opDef, hist []int, wantKey, verbose bool) (out runOut) {
	for attempt := 0; attempt < 4; attempt++ {
		out = runHistoryOnce(cfg, seed, ops, hist, wantKey, verbose)
		if !starved(out.viol) {
			return out
		}
		time.Sleep(time.Duration(attempt+1) * 200 * time.Millisecond)
	}
	out.viol = &violation{clause: "ENGINE", detail: "a wall-clock timeout inside portbase fired in 4 attempts (machine overloaded?): " + out.viol.detail}
	return out
}

// runHistoryOnce replays hist on a wiped database of cfg and on the model.
func runHistoryOnce(cfg config, seed seedDef, ops []opDef, hist []int, wantKey, verbose bool) (out runOut) {
	progress.Add(1)
	env, err := getEnv(cfg.Backend, cfg.Shadow)
	if err != nil {
		out.viol = &violation{clause: "ENGINE", detail: err.Error()}
		return
	}
	logf := func(format string, a ...any) { out.log = append(out.log, fmt.Sprintf(format, a...)) }
	names := make([]string, len(hist))
	for i, oi := range hist {
		names[i] = ops[oi].name
	}
	current.Store(running{cfg.String(), seed.name, names})

	// fresh state
	vtime.SetManual(true, time.Unix(t0, 0))
	if err := env.wipe(); err != nil {
		out.viol = &violation{clause: "ENGINE", detail: "wipe: " + err.Error()}
		return
	}
	m := &model{now: t0, recs: map[string]*entry{}}
	for k, e := range seed.recs {
		e := e
		if _, err := env.st.Put(mkRecord(env.name, k, e.c, false, &e.m)); err != nil {
			out.viol = &violation{clause: "ENGINE", detail: "seed: " + err.Error()}
			return
		}
		m.recs[k] = &entry{e.c, e.m}
	}
	opts := &database.Options{Local: true, Internal: true}
	switch cfg.Cache {
	case "read":
		opts.CacheSize = 2
	case "delayed":
		opts.CacheSize = 2
		opts.DelayCachedWrites = env.name
	}
	x := &exec{cfg: cfg, env: env, iface: database.NewInterface(opts), keys: keysFor(cfg.Backend), now: t0}
	setCacheClock(x.iface)

	layer := cfg.Backend
	if cfg.Cache != "none" {
		layer = cfg.Cache + "-cache"
	}
	lastKind := "initial-state"
	pre, err := seed.prefix(cfg, ops)
	if err != nil {
		out.viol = &violation{clause: "ENGINE", detail: err.Error()}
		return
	}
	full := append(append(make([]int, 0, len(pre)+len(hist)), pre...), hist...)
	for step, oi := range full {
		o := ops[oi]
		lastKind = o.kind
		var pending map[string]record.Record
		if cfg.Cache == "delayed" {
			pending = x.iface.VerifWriteCache()
		}
		var before map[string]string
		isMaint := o.kind == "MaintainRecordStates" || o.kind == "Maintain"
		if isMaint {
			if before, err = env.raw(); err != nil {
				out.viol = &violation{clause: "ENGINE", detail: "raw: " + err.Error()}
				return
			}
		}
		var got result
		p, stack := vlib.Catch(func() { got = o.run(x) })
		if p != nil {
			out.viol = &violation{"never-panics", layer + ":" + o.kind, vlib.PanicSite(stack), fmt.Sprintf("step %d %s panicked: %v\n%s", step+1, o.name, p, firstLines(stack, 14))}
			return
		}
		var want result
		if got.cls == "notimpl" && ((o.kind == "Purge" && !isPurger(env.st)) || (o.kind == "PutMany" && !isBatcher(env.st))) {
			// the backend does not offer the operation and says so: nothing happens on either side
			want = got
		} else {
			want = o.ref(m)
		}
		if verbose {
			logf("step %d %-45s impl: %-60s model: %s", step+1, o.name, got, want)
		}
		if d := diffResult(got, want); d != "" {
			out.viol = &violation{"operation-result-equals-model", layer + ":" + o.kind, d,
				fmt.Sprintf("step %d %s returned %v, the reference map says %v (model before probe: %s)", step+1, o.name, got, want, m.dump())}
			return
		}
		switch o.forget {
		case "":
		case "*":
			x.held, m.held = nil, nil
		default:
			x.forget(o.forget)
			m.forget(o.forget)
		}
		if o.kind == "FlushCache" {
			if n := len(x.iface.VerifWriteCache()); n > 0 {
				out.viol = &violation{"flush-writes-delayed-records", layer + ":FlushCache", "records-still-pending",
					fmt.Sprintf("step %d FlushCache returned, but %d delayed write(s) are still pending (not written to the storage)", step+1, n)}
				return
			}
		}
		if isMaint {
			after, err := env.raw()
			if err != nil {
				out.viol = &violation{clause: "ENGINE", detail: "raw: " + err.Error()}
				return
			}
			for k := range before {
				if _, still := after[k]; !still && m.visible(k) != nil {
					out.viol = &violation{"maintenance-removes-only-deleted-or-expired", layer + ":" + o.kind, "removed-visible-record",
						fmt.Sprintf("step %d %s physically removed %q, which is neither deleted nor expired (model: %s)", step+1, o.name, k, m.dump())}
					return
				}
			}
		}
		out.outcome = o.kind + ":" + got.cls
		if got.cls == "count" {
			out.outcome = fmt.Sprintf("%s:count=%d", o.kind, got.n)
		}
		if len(pending) > 0 && o.kind != "Flush" && o.kind != "FlushCache" && (step == len(full)-1 || len(hist) == 0) {
			// pending delayed writes that this step pushed out of the cache (the eviction handler writes them through)
			inCache := map[string]bool{}
			for _, ck := range x.iface.VerifCache().Keys(false) {
				inCache[fmt.Sprint(ck)] = true
			}
			for k := range pending {
				if !inCache[k] {
					out.evicted++
				}
			}
		}
	}

	// canonical state, before the probe touches the cache
	if wantKey {
		raw, err := env.raw()
		if err != nil {
			out.viol = &violation{clause: "ENGINE", detail: "raw: " + err.Error()}
			return
		}
		heldDump := map[string]string{}
		for k, r := range x.held {
			heldDump[k] = decode(r).String()
		}
		state := fmt.Sprintf("%v|%s|M:%s|R:%s|C:%s|H:%s", cfg, seed.name, m.dump(), dumpMap(raw), dumpCache(x.iface), dumpMap(heldDump))
		if verbose {
			logf("state: %s", state)
		}
		h := sha256.Sum256([]byte(state))
		out.key = hex.EncodeToString(h[:16])
	}
	invisible := 0
	for k := range m.recs {
		if m.visible(k) == nil {
			invisible++
		}
	}
	out.nontriv = len(m.recs) >= 2 || invisible > 0

	// probe
	var plog func(string, ...any)
	if verbose {
		plog = logf
	}
	if v := probe(x, m, layer, lastKind, plog); v != nil {
		out.viol = v
		out.key = ""
	}
	return
}

func isPurger(s storage.Interface) bool  { _, ok := s.(storage.Purger); return ok }
func isBatcher(s storage.Interface) bool { _, ok := s.(storage.Batcher); return ok }

func firstLines(s string, n int) string {
	l := strings.Split(s, "\n")
	if len(l) > n {
		l = l[:n]
	}
	return strings.Join(l, "\n")
}

// probe compares everything observable with the model: Exists and Get of every key, then every query.
func probe(x *exec, m *model, layer, lastKind string, logf func(string, ...any)) *violation {
	// Keys that sit in the read cache are probed first: a cache hit never evicts anything, whereas the miss of
	// another key would insert that key and could evict (and thereby hide) a stale entry before it is looked at.
	order := x.keys
	if ca := x.iface.VerifCache(); ca != nil {
		cached := map[string]bool{}
		for _, ck := range ca.Keys(false) {
			cached[fmt.Sprint(ck)] = true
		}
		var first, rest []string
		for _, k := range x.keys {
			if cached[x.full(k)] {
				first = append(first, k)
			} else {
				rest = append(rest, k)
			}
		}
		order = append(first, rest...)
	}
	for _, k := range order {
		want := modelGet(m, k)
		var ex bool
		var exErr error
		var got result
		p, stack := vlib.Catch(func() {
			ex, exErr = x.iface.Exists(x.full(k))
			got = x.get(k)
		})
		if p != nil {
			return &violation{"never-panics", layer + ":" + lastKind + "→Get", vlib.PanicSite(stack), fmt.Sprintf("probe Get(%s) panicked: %v\n%s", k, p, firstLines(stack, 14))}
		}
		if logf != nil {
			logf("probe Exists(%s)=%v,%v Get(%s): impl %v | model %v", k, ex, exErr, k, got, want)
		}
		if exErr != nil || ex != (want.cls == "found") {
			return &violation{"get-returns-latest-or-notfound", layer + ":" + lastKind + "→Exists", fmt.Sprintf("%v→%v", want.cls == "found", exResult(ex, exErr)),
				fmt.Sprintf("after the history, Exists(%s) = %v (err %v), the reference map says %v (model: %s)", k, ex, exErr, want, m.dump())}
		}
		if d := diffResult(got, want); d != "" {
			return &violation{"get-returns-latest-or-notfound", layer + ":" + lastKind + "→Get", d,
				fmt.Sprintf("after the history, Get(%s) = %v, the reference map says %v (model: %s)", k, got, want, m.dump())}
		}
	}
	if x.cfg.Cache == "delayed" && m.dirty {
		// the quantifier offers queries through a delayed write cache only after a flush
		if err := flush(x.iface); err != nil {
			return &violation{"operation-result-equals-model", layer + ":Flush", "ok→error", "flush before the query probe failed: " + err.Error()}
		}
		m.dirty = false
	}
	for _, q := range queries {
		got, qerr, dup := runQuery(x, q)
		want := map[string]decoded{}
		for k, e := range m.recs {
			if m.visible(k) != nil && q.matches(k, e) {
				want[k] = decoded{key: k, c: e.c, m: e.m}
			}
		}
		site := layer + ":Query[" + q.pclass
		if q.cond != nil {
			site += ",condition"
		}
		site += "]"
		if logf != nil {
			logf("probe query %-50s impl %v | model %v", q.name, sortedVals(got), sortedVals(want))
		}
		describe := func() string {
			return fmt.Sprintf("query %q returned %v, the reference map says %v (model: %s)", q.name, sortedVals(got), sortedVals(want), m.dump())
		}
		const clause = "query-yields-exactly-the-matching-visible-records"
		if qerr != "" {
			return &violation{clause, site, "failed:" + qerrClass(qerr), describe() + "; error: " + qerr}
		}
		if dup != "" {
			return &violation{clause, site, "duplicate-records", describe() + "; duplicate key " + dup}
		}
		for k := range got {
			if _, ok := want[k]; !ok {
				return &violation{clause, site, "extra-records", describe()}
			}
		}
		for k, w := range want {
			g, ok := got[k]
			if !ok {
				return &violation{clause, site, "missing-records", describe()}
			}
			if g.bad != "" || g.c != w.c {
				return &violation{clause, site, "record-with-other-data", describe()}
			}
			if g.m != w.m {
				return &violation{clause, site, "record-with-other-metadata", describe()}
			}
		}
	}
	return nil
}

func exResult(ex bool, err error) string {
	if err != nil {
		return "error"
	}
	return fmt.Sprint(ex)
}

func qerrClass(e string) string {
	switch {
	case strings.HasPrefix(e, "panic"):
		return "panic"
	case strings.Contains(e, "did not end"):
		return "no-end-of-stream"
	case strings.HasPrefix(e, "Query:"):
		return "query-refused"
	}
	return "iterator-error"
}

func sortedVals(m map[string]decoded) []string {
	out := make([]string, 0, len(m))
	for _, d := range m {
		d.kind = ""
		out = append(out, d.String())
	}
	sort.Strings(out)
	return out
}

func runQuery(x *exec, q qdef) (got map[string]decoded, qerr string, dup string) {
	got = map[string]decoded{}
	p, _ := vlib.Catch(func() {
		it, err := x.iface.Query(q.build(x.env.name))
		if err != nil {
			qerr = "Query: " + err.Error()
			return
		}
		timeout := time.NewTimer(30 * time.Second)
		defer timeout.Stop()
		for {
			select {
			case r, ok := <-it.Next:
				if !ok {
					if err := it.Err(); err != nil {
						qerr = "iterator: " + err.Error()
					}
					return
				}
				d := decode(r)
				if _, had := got[d.key]; had {
					dup = d.key
				}
				got[d.key] = d
			case <-timeout.C:
				it.Cancel()
				qerr = "the result stream did not end within 30 s"
				return
			}
		}
	})
	if p != nil {
		qerr = fmt.Sprintf("panic: %v", p)
	}
	return
}

// ---------------------------------------------------------------- BFS levels

type node struct {
	Cfg  int   `json:"c"`
	Seed int   `json:"s"`
	Hist []int `json:"h"`
}

type levelFile struct {
	Depth  int    `json:"depth"`
	Last   bool   `json:"last"`   // deepest level: successors are checked, their states not reported
	Extend bool   `json:"extend"` // false: run the nodes' own histories (roots)
	Chunk  int    `json:"chunk"`  // nodes per claimed work item
	Max    int    `json:"max"`    // history depth of this run
	Nodes  []node `json:"nodes"`
}

type succ struct {
	Node int    `json:"n"`
	Op   int    `json:"o"`
	Key  string `json:"k"`
	NT   bool   `json:"t,omitempty"`
}

func applicable(o opDef, cfg config, dirty bool) bool {
	return !(cfg.Cache == "delayed" && o.needClean && dirty)
}

// dirtyAfter computes the model's pending-delayed-write flag after a history (cheap: model only).
func dirtyAfter(ops []opDef, pre, hist []int) bool {
	d := false
	for _, oi := range append(append([]int{}, pre...), hist...) {
		switch ops[oi].kind {
		case "Put", "PutNew", "Resave", "Renew", "PutAgain":
			d = true
		case "Flush", "FlushCache":
			d = false
		}
	}
	return d
}

func report(c *vlib.Ctx, cfg config, seed seedDef, ops []opDef, hist []int, v *violation, opsFor func(config) []opDef) {
	names := make([]string, len(hist))
	for i, oi := range hist {
		names[i] = ops[oi].name
	}
	if v.clause == "ENGINE" {
		c.EngineError("%v seed=%s history=%v: %s", cfg, seed.name, names, v.detail)
		return
	}
	site := v.site
	start := seed.name
	if seed.pre != nil {
		start += fmt.Sprintf(" = interface prefix %v", seed.pre(keysFor(cfg.Backend)))
	}
	detail := fmt.Sprintf("configuration %v, initial state %s, history %v: %s", cfg, start, names, v.detail)
	wcfg, wnames := cfg, names
	// attribute the violation to the simplest cache mode in which the same history (without flushes) fails in the same clause
	var simpler []string
	switch cfg.Cache {
	case "delayed":
		simpler = []string{"none", "read"}
	case "read":
		simpler = []string{"none"}
	}
	for _, cm := range simpler {
		plain := config{cfg.Backend, cfg.Shadow, cm}
		pops := opsFor(plain)
		byName := map[string]int{}
		for i, o := range pops {
			byName[o.name] = i
		}
		var ph []int
		okAll := true
		for _, n := range names {
			if n == "Flush" || n == "FlushCache" {
				continue
			}
			i, ok := byName[n]
			if !ok {
				okAll = false
				break
			}
			ph = append(ph, i)
		}
		if !okAll {
			continue
		}
		if r := runHistory(plain, seed, pops, ph, false, false); r.viol != nil && r.viol.clause == v.clause {
			site = r.viol.site
			detail += fmt.Sprintf(" [the same history fails with cache mode %q too: attributed to that layer]", cm)
			wcfg, wnames = plain, nil
			for _, oi := range ph {
				wnames = append(wnames, pops[oi].name)
			}
			break
		}
	}
	c.Violate(v.clause, site, v.disc, detail, witness{wcfg, seed.name, wnames})
}

func shardWork(c *vlib.Ctx, cfgs []config, opsFor func(config) []opDef) {
	if pf := os.Getenv("C02_SHARD_PROFILE"); pf != "" && c.Shard == 0 { // development aid
		if f, err := os.Create(pf); err == nil {
			_ = pprof.StartCPUProfile(f)
			defer pprof.StopCPUProfile()
		}
	}
	b, err := os.ReadFile(*flagLevel)
	if err != nil {
		c.EngineError("level file: %v", err)
		return
	}
	var lf levelFile
	if err := json.Unmarshal(b, &lf); err != nil {
		c.EngineError("level file: %v", err)
		return
	}
	var out []succ
	outcomes := map[string]int64{}
	var transitions int64
	chunk := lf.Chunk
	if chunk < 1 {
		chunk = 1
	}
	nChunks := (len(lf.Nodes) + chunk - 1) / chunk
	complete := true
	for ci := 0; ci < nChunks; ci++ {
		if !c.Claim(ci) {
			continue
		}
		if c.Expired() {
			complete = false
			break
		}
		for ni := ci * chunk; ni < (ci+1)*chunk && ni < len(lf.Nodes); ni++ {
			nd := lf.Nodes[ni]
			cfg := cfgs[nd.Cfg]
			ops := opsFor(cfg)
			seed := seeds[nd.Seed]
			if !lf.Extend {
				r := runHistory(cfg, seed, ops, nd.Hist, true, false)
				transitions++
				if r.viol != nil {
					report(c, cfg, seed, ops, nd.Hist, r.viol, opsFor)
					continue
				}
				outcomes["evicted-pending-write"] += int64(r.evicted)
				out = append(out, succ{ni, -1, r.key, r.nontriv})
				continue
			}
			// slow configurations end one step earlier: badger (about 1 ms per transaction) always, fstree behind a
			// cache (about 100 system calls per probe) in the quick tier
			shallow := cfg.Backend == "badger" || (c.Quick() && cfg.Backend == "fstree" && cfg.Cache != "none")
			last := lf.Last || (shallow && lf.Depth >= lf.Max-1)
			if lf.Last {
				c.ExtraAdd("deepest_level_nodes_expanded", 1)
			}
			pre, _ := seed.prefix(cfg, ops)
			dirty := dirtyAfter(ops, pre, nd.Hist)
			h := append(append(make([]int, 0, len(nd.Hist)+1), nd.Hist...), 0)
			for oi, o := range ops {
				if !applicable(o, cfg, dirty) {
					continue
				}
				h[len(h)-1] = oi
				r := runHistory(cfg, seed, ops, h, !last, false)
				transitions++
				if r.viol != nil {
					outcomes["violation"]++
					report(c, cfg, seed, ops, h, r.viol, opsFor)
					continue
				}
				outcomes[r.outcome]++
				outcomes["evicted-pending-write"] += int64(r.evicted)
				if !last {
					out = append(out, succ{ni, oi, r.key, r.nontriv})
				}
			}
		}
	}
	if !complete {
		_ = os.WriteFile(filepath.Join(*flagSucc, fmt.Sprintf("incomplete-%d", c.Shard)), nil, 0o644)
	}
	for k, v := range outcomes {
		c.OutcomeN(k, v)
	}
	c.Add(0, transitions, transitions)
	ob, _ := json.Marshal(out)
	if err := os.WriteFile(filepath.Join(*flagSucc, fmt.Sprintf("succ-%d.json", c.Shard)), ob, 0o644); err != nil {
		c.EngineError("successor file: %v", err)
	}
}

// interleave orders nodes round-robin over the configurations (stable within a configuration).
func interleave(nodes []node, nCfg int) []node {
	groups := make([][]node, nCfg)
	for _, n := range nodes {
		groups[n.Cfg] = append(groups[n.Cfg], n)
	}
	out := make([]node, 0, len(nodes))
	for i := 0; len(out) < len(nodes); i++ {
		for _, g := range groups {
			if i < len(g) {
				out = append(out, g[i])
			}
		}
	}
	return out
}

func watchdog() {
	go func() {
		last := progress.Load()
		idle := 0
		for {
			time.Sleep(5 * time.Second)
			now := progress.Load()
			if now != last {
				last, idle = now, 0
				continue
			}
			idle++
			if idle >= 24 { // two minutes without finishing a history
				fmt.Fprintf(os.Stderr, "WATCHDOG: no progress for 120 s while running %v\n", current.Load())
				if rootDir != "" {
					_ = os.RemoveAll(rootDir)
				}
				os.Exit(3)
			}
		}
	}()
}

func main() {
	vlib.Main("C02", "model_checking", func(c *vlib.Ctx) {
		defer cleanupEnvs()
		// schedule clause (iterator error hand-over): engine S on database/iterator
		if !c.IsShard() {
			if c.ReplayPart(`"c02/iterator`, "/verif/build/c02s") {
				return
			}
			if c.Replay == "" {
				tmp, hadTmp := os.LookupEnv("TMPDIR")
				defer func() {
					// the environments of this part point TMPDIR at a scratch location
					if hadTmp {
						os.Setenv("TMPDIR", tmp)
					} else {
						os.Unsetenv("TMPDIR")
					}
					c.RunPart("/verif/build/c02s")
				}()
			}
		}
		cfgs := allConfigs(c)
		opsCache := map[string][]opDef{}
		opsFor := func(cf config) []opDef {
			k := cf.Backend + "/" + cf.Cache
			if o, ok := opsCache[k]; ok {
				return o
			}
			// replays always use the full alphabet (a superset with stable names)
			o := buildOps(cf, c.Quick() && c.Replay == "")
			opsCache[k] = o
			return o
		}
		nSeeds := len(seeds)

		if c.IsShard() {
			watchdog()
			shardWork(c, cfgs, opsFor)
			return
		}

		c.Rule("breadth-first search over histories of database.Interface operations on the real code, per configuration backend {hashmap,bbolt,fstree; thorough: badger} x shadow-delete {off,on} x cache {none, read cache size 2, delayed write cache size 2 (hashmap, bbolt)} and per initial state: 5 storage contents (empty, one live, one shadow-deleted, one expired record, one with a relative expiry) and, behind a cache, 3 non-initial interface states reached by a fixed prefix run through the interface under test (three puts of which the oldest was evicted; a put plus a cached get of another key; a cache full of read entries); " +
			"alphabet per configuration: Get, Put (typed struct / wrapped JSON twins, 2 contents), PutNew (record object with stale metadata: old+expired / deleted before / relative TTL / expiring later), Resave (Get then Put of the same object), Renew (Get, Delete, then PutNew of the object obtained by Get), PutAgain (Put again the record object the caller put last under the key; object identity across maintenance, time and caches), Delete, SetAbsoluteExpiry (past, +10 s), SetRelativateExpiry (10 s; 0 = switch the relative expiry off), PutMany (2 batches of two records, one deleted), Purge (2 queries), 10 s / 20 s pass on the manual clock, MaintainRecordStates (threshold now / now-15 s), Maintain, FlushCache and Flush = one DelayedCacheWriter run ended by its context (delayed writes only), Put of an already deleted record over 4 keys sharing prefixes and a path separator; " +
			"every history runs on a wiped database through a fresh Interface and on a map[string]entry model; after the last step Exists+Get of all 4 keys (cached keys first, so that the probe's own cache misses cannot evict a stale entry unseen) and 19 queries (5 key prefixes; all 18 operators; and/or/not nested to depth 2) are compared; states de-duplicated on (model, raw storage dump, ARC cache lists and entries, delayed write set); " +
			"non-trivial = distinct reached states holding at least two records or at least one deleted/expired record. " +
			"Plus two scenario families: bulk (N records in mixed states, N around bbolt's purge batch size 1000 and up to several B+tree pages, then Purge by prefix / by condition or MaintainRecordStates, compared with the model) storage-error (a query that meets an unreadable raw record must end its stream and report through Iterator.Err()) and condition (input enumeration: every operator x operand values x field values at the numeric boundaries 0, +-1, 2^31, 2^53-1, 2^53, 2^53+1, MaxInt64-1, MaxInt64, MinInt64, MinInt64+1, floats incl. non-integers and 1e300, strings incl. empty/unicode/escapes, bools in all accepted spellings, string lists incl. empty, plus Not of every leaf and And/Or pairs, evaluated on a typed record and on its marshalled-and-reloaded twin against a reference evaluator of the README operator table). Scenario long-history (every backend x delete mode x cache none / read cache of 256 entries): one scripted history of 48 (thorough 200) puts, overwrites and deletes of other keys with growing value sizes and keys sorting before, between and after three records that were stored beforehand and are never written; after every step these three, the key just written and an earlier key are read back (through the cache, if any) and compared with the model, at the end the query for everything. Scenario put-during-flush (hashmap, bbolt): a storage type registered by the harness wraps the real storage and calls back when a flush's batch hands over its first record; if the delayed write set's lock is free at that moment the harness puts (same key / another key) right there, otherwise right after the flush (a concurrent put could only wait); after one more flush the storage must hold the newest put. The outcome class evicted-pending-write counts the delayed writes that a step pushed out of the cache")
		c.Assume("operators applied to a field of another type (float operators on an integer field, integer operators on a float or string field, string operators on an integer field) are outside the README operator table; there the struct and the JSON accessor visibly differ (e.g. GetFloat of an integer field: struct refuses, JSON converts), so these cases are evaluated and counted (outcome classes cross-type:*) but not asserted")
		c.Assume("metadata semantics are those documented in record/meta.go: a save stamps Modified (and Created if unset) and recomputes Expires from a relative TTL; a TTL set through Interface.SetRelativateExpiry therefore takes effect at the next save (not asserted otherwise); a record is expired when now > Expires")
		c.Assume("a backend that does not implement Purge / PutMany and answers ErrNotImplemented is taken as 'operation not offered' (no effect in the model); the count returned by Purge may or may not include expired records that were not yet deleted")
		c.Assume("databases are reused between histories by wiping all records (hashmap: new map; bbolt: bucket dropped and re-created; fstree: directory emptied; badger: all keys deleted); the read cache's clock is replaced by the manual clock so that cache TTLs and record expiry run on the same clock, as they do in production")
		c.Assume("the interface holds all permissions (Local+Internal), as PutMany and delayed writes require; permission clauses belong to C03. Through a delayed write cache, only Get/Put/PutNew/PutAgain/Resave/Renew/Delete/Flush/time are offered while a delayed write is pending; every other operation and all queries run after a flush")
		c.Assume("portbase's own wall-clock timeouts (query executors: consumer must take a record within 1 s; PutMany: next record within 1 s) can only fire here when the process is starved of CPU, as the harness drains and feeds immediately; such a run is repeated (4 attempts) and otherwise reported as an engine error, never as a finding")
		c.Extra("depth_note", "history depth = max depth, except one less for badger (thorough) and for fstree behind a read cache in the quick tier")

		if c.Replay != "" {
			replay(c, opsFor)
			return
		}

		maxDepth := vlib.Pick(c, 3, 4)
		if *flagDepth > 0 {
			maxDepth = *flagDepth
		}
		c.SetBudget(vlib.Pick(c, 170*time.Second, 25*time.Minute))
		if d, err := time.ParseDuration(os.Getenv("C02_BUDGET")); err == nil && d > 0 { // development aid
			c.SetBudget(d)
		}
		workDir, err := os.MkdirTemp("", "verif-c02-levels-")
		if err != nil {
			c.EngineError("mkdtemp: %v", err)
			return
		}
		defer os.RemoveAll(workDir)

		seen := map[string]struct{}{}
		var frontier []node
		for ci := range cfgs {
			for si := 0; si < nSeeds; si++ {
				if seeds[si].usedWith(cfgs[ci]) {
					frontier = append(frontier, node{ci, si, nil})
				}
			}
		}
		perCfgStates := map[string]int{}
		depthDone := -1
		sampleEvery := 7
		for depth := 0; depth <= maxDepth && len(frontier) > 0; depth++ {
			lf := levelFile{Depth: depth, Last: depth == maxDepth, Extend: depth > 0, Nodes: frontier, Chunk: len(frontier) / (8 * c.Workers), Max: maxDepth}
			if lf.Chunk > 16 {
				lf.Chunk = 16
			}
			lb, _ := json.Marshal(lf)
			lpath := filepath.Join(workDir, fmt.Sprintf("level-%d.json", depth))
			sdir := filepath.Join(workDir, fmt.Sprintf("succ-%d", depth))
			_ = os.MkdirAll(sdir, 0o755)
			if err := os.WriteFile(lpath, lb, 0o644); err != nil {
				c.EngineError("level file: %v", err)
				return
			}
			started := time.Now()
			nShards := c.Workers
			if len(frontier) < nShards*2 && depth == 0 {
				nShards = 4
			}
			c.SpawnShards(nShards, "-level", lpath, "-succ", sdir, "-only", *flagOnly)
			// collect
			var all []succ
			files, _ := filepath.Glob(filepath.Join(sdir, "succ-*.json"))
			for _, f := range files {
				var ss []succ
				fb, err := os.ReadFile(f)
				if err == nil {
					err = json.Unmarshal(fb, &ss)
				}
				if err != nil {
					c.EngineError("successor file %s: %v", f, err)
					continue
				}
				all = append(all, ss...)
			}
			sort.Slice(all, func(i, j int) bool {
				if all[i].Node != all[j].Node {
					return all[i].Node < all[j].Node
				}
				return all[i].Op < all[j].Op
			})
			var next []node
			for _, s := range all {
				if s.Key == "" {
					continue
				}
				if _, ok := seen[s.Key]; ok {
					continue
				}
				seen[s.Key] = struct{}{}
				nd := frontier[s.Node]
				h := append([]int{}, nd.Hist...)
				if s.Op >= 0 {
					h = append(h, s.Op)
				}
				nn := node{nd.Cfg, nd.Seed, h}
				next = append(next, nn)
				perCfgStates[cfgs[nd.Cfg].String()]++
				if s.NT {
					c.NontrivialN(1)
				}
				if len(seen)%sampleEvery == 0 && len(h) > 0 {
					sampleEvery *= 3
					ops := opsFor(cfgs[nd.Cfg])
					var names []string
					for _, oi := range h {
						names = append(names, ops[oi].name)
					}
					c.Sample(map[string]any{"configuration": cfgs[nd.Cfg].String(), "initial_storage": seeds[nd.Seed].name, "history": names})
				}
			}
			inc, _ := filepath.Glob(filepath.Join(sdir, "incomplete-*"))
			expired := len(inc) > 0
			fmt.Printf("depth %d: %d nodes expanded in %.1fs, %d new states (total %d)%s\n", depth, len(frontier), time.Since(started).Seconds(), len(next), len(seen),
				map[bool]string{true: " [budget reached]", false: ""}[expired])
			if expired {
				c.NotExhaustive(fmt.Sprintf("history depth %d of %d completed for all configurations", depthDone, maxDepth))
				break
			}
			depthDone = depth
			if !lf.Last {
				frontier = next
				if depth+1 == maxDepth {
					// the deepest level may be cut off by the budget: interleave the configurations so that a cut is even
					frontier = interleave(frontier, len(cfgs))
					c.Extra("deepest_level_nodes_total", len(frontier))
				}
			}
		}
		c.Add(int64(len(seen)), 0, 0)
		watchdog()
		runScenarios(c, cfgs)
		c.Extra("max_depth_completed", depthDone)
		c.Extra("configurations", len(cfgs))
		c.Extra("initial_storages", nSeeds)
		c.Extra("states_per_configuration", perCfgStates)
		sizes := map[string]int{}
		for _, cf := range cfgs {
			sizes[cf.Backend+"/"+cf.Cache] = len(opsFor(cf))
		}
		c.Extra("alphabet_sizes", sizes)
		c.Extra("queries_in_probe", len(queries))
		c.Extra("states_note", "states = distinct canonical states through depth max-1 (the deepest level is checked on every transition, its successor states are not stored)")
	})
}

func replay(c *vlib.Ctx, opsFor func(config) []opDef) {
	var aw anyWitness
	if _, err := c.LoadReplay(&aw); err != nil {
		c.EngineError("replay: %v", err)
		return
	}
	if aw.Scenario != "" {
		replayScenario(c, scenarioWitness{aw.Scenario, aw.Config, aw.N, aw.Variant})
		return
	}
	w := aw.witness
	ops := opsFor(w.Config)
	byName := map[string]int{}
	for i, o := range ops {
		byName[o.name] = i
	}
	var hist []int
	for _, n := range w.History {
		i, ok := byName[n]
		if !ok {
			c.EngineError("replay: unknown operation %q in configuration %v", n, w.Config)
			return
		}
		hist = append(hist, i)
	}
	for _, sd := range seeds {
		if sd.name != w.Seed {
			continue
		}
		r := runHistory(w.Config, sd, ops, hist, true, true)
		fmt.Printf("replay: configuration %v, initial storage %s, history %v\n", w.Config, sd.name, w.History)
		for _, l := range r.log {
			fmt.Println("  " + l)
		}
		c.Add(1, int64(len(hist)), 1)
		if r.viol != nil {
			fmt.Printf("replay: still violates: %s | %s | %s\n", r.viol.clause, r.viol.site, r.viol.disc)
			report(c, w.Config, sd, ops, hist, r.viol, opsFor)
		} else {
			fmt.Println("replay: no violation")
		}
		return
	}
	c.EngineError("replay: unknown initial storage %q", w.Seed)
}
