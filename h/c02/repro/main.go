// Reproduction of the C02 findings against the real portbase code, without the
// harness, the overlay or the manual clock (public API only, real time).
//
//	cd /verif && GOFLAGS=-mod=mod GOPROXY=off GOSUMDB=off go run ./h/c02/repro
//
// Every case prints what the database did and what a plain key -> record map
// would have done. Exit code 1 if at least one defect reproduced.
package main

import (
	"context"
	"errors"
	"fmt"
	"os"
	"sync"
	"time"

	"github.com/safing/portbase/database"
	"github.com/safing/portbase/database/query"
	"github.com/safing/portbase/database/record"
	_ "github.com/safing/portbase/database/storage/bbolt"
	_ "github.com/safing/portbase/database/storage/fstree"
	_ "github.com/safing/portbase/database/storage/hashmap"
)

type rec struct {
	record.Base
	sync.Mutex
	S string
	I int64
}

func mk(key, s string, i int64) *rec {
	r := &rec{S: s, I: i}
	r.SetKey(key)
	return r
}

var reproduced int

func verdict(id string, defect bool, what string) {
	if defect {
		reproduced++
		fmt.Printf("%-4s DEFECT reproduced: %s\n", id, what)
	} else {
		fmt.Printf("%-4s not reproduced:    %s\n", id, what)
	}
}

func exists(db *database.Interface, key string) bool {
	ok, err := db.Exists(key)
	if err != nil {
		fmt.Println("  Exists error:", err)
	}
	return ok
}

func keys(db *database.Interface, q string) ([]string, error) {
	it, err := db.Query(query.New(q))
	if err != nil {
		return nil, err
	}
	var out []string
	for r := range it.Next {
		out = append(out, r.Key())
	}
	time.Sleep(10 * time.Millisecond) // the error is stored after the stream is closed
	return out, it.Err()
}

func main() {
	dir, err := os.MkdirTemp("", "c02-repro-")
	if err != nil {
		panic(err)
	}
	defer os.RemoveAll(dir)
	if err := database.InitializeWithPath(dir); err != nil {
		panic(err)
	}
	for _, d := range []*database.Database{
		{Name: "hmap", StorageType: "hashmap"},
		{Name: "bolt", StorageType: "bbolt"},
		{Name: "fst1", StorageType: "fstree"},
		{Name: "fst2", StorageType: "fstree"},
		{Name: "fst3", StorageType: "fstree"},
	} {
		if _, err := database.Register(d); err != nil {
			panic(err)
		}
	}
	all := &database.Options{Local: true, Internal: true}
	cached := func() *database.Interface {
		return database.NewInterface(&database.Options{Local: true, Internal: true, CacheSize: 2})
	}

	// F1a: get after delete through an interface with a read cache
	db := cached()
	_ = db.Put(mk("hmap:f1a", "x", 1))
	_ = db.Delete("hmap:f1a")
	verdict("F1a", exists(db, "hmap:f1a"), "Put, Delete, Exists through a read cache says the record still exists")

	// F1b: expiry set to a past time through an interface with a read cache
	db = cached()
	_ = db.Put(mk("hmap:f1b", "x", 1))
	_ = db.SetAbsoluteExpiry("hmap:f1b", time.Now().Unix()-5)
	verdict("F1b", exists(db, "hmap:f1b"), "Put, SetAbsoluteExpiry(past), Exists through a read cache says the record still exists")

	// F1c: expiry passes while the record sits in the read cache
	db = cached()
	_ = db.Put(mk("hmap:f1c", "x", 1))
	_ = db.SetAbsoluteExpiry("hmap:f1c", time.Now().Unix()+1)
	time.Sleep(2500 * time.Millisecond)
	verdict("F1c", exists(db, "hmap:f1c"), "Put, SetAbsoluteExpiry(now+1), 2.5 s pass, Exists through a read cache says the record still exists")

	// F2: PutMany is not seen through the read cache of the same interface
	db = cached()
	_ = db.Put(mk("hmap:f2", "old", 1))
	put := db.PutMany("hmap")
	_ = put(mk("hmap:f2", "new", 2))
	_ = put(nil)
	r, err := db.Get("hmap:f2")
	verdict("F2", err == nil && r.(*rec).S == "old", fmt.Sprintf("Put(old), PutMany(new), Get through a read cache returns %q", func() string {
		if err != nil {
			return err.Error()
		}
		return r.(*rec).S
	}()))

	// F3: Purge is not seen through the read cache of the same interface
	db = cached()
	_ = db.Put(mk("bolt:f3", "x", 1))
	n, err := db.Purge(context.Background(), query.New("bolt:f3"))
	verdict("F3", err == nil && n == 1 && exists(db, "bolt:f3"), fmt.Sprintf("Put, Purge (purged %d, err %v), Exists through a read cache says the record still exists", n, err))

	// F4: flushing delayed writes stamps the records with the time of the flush
	dw := database.NewInterface(&database.Options{Local: true, Internal: true, CacheSize: 8, DelayCachedWrites: "hmap"})
	_ = dw.Put(mk("hmap:f4", "x", 1))
	r, _ = dw.Get("hmap:f4")
	before := r.Meta().Modified
	time.Sleep(2100 * time.Millisecond)
	ctx, cancel := context.WithCancel(context.Background())
	cancel()
	_ = dw.DelayedCacheWriter(ctx) // flushes once and returns
	r, _ = database.NewInterface(all).Get("hmap:f4")
	verdict("F4", r != nil && r.Meta().Modified != before, fmt.Sprintf("Put at %d, flush 2 s later: the stored record says Modified = %d", before, r.Meta().Modified))

	// F7: FlushCache does nothing exactly when delayed writes are configured
	dw = database.NewInterface(&database.Options{Local: true, Internal: true, CacheSize: 8, DelayCachedWrites: "hmap"})
	_ = dw.Put(mk("hmap:f7", "x", 1))
	dw.FlushCache()
	_, err = database.NewInterface(all).Get("hmap:f7")
	verdict("F7", errors.Is(err, database.ErrNotFound), fmt.Sprintf("delayed Put, FlushCache, Get through another interface: %v", err))

	// F5: fstree queries do not apply the key prefix
	fs := database.NewInterface(all)
	got, err := keys(fs, "fst1:a/b")
	verdict("F5a", err != nil, fmt.Sprintf("query with prefix a/b on an empty fstree database: %v, err %v (a map: no records, no error)", got, err))
	_ = fs.Put(mk("fst1:a/b", "x", 1))
	_ = fs.Put(mk("fst1:a/c", "x", 1))
	got, err = keys(fs, "fst1:a/b")
	verdict("F5b", len(got) != 1, fmt.Sprintf("records a/b, a/c: query with prefix a/b yields %v, err %v (a map: [fst1:a/b])", got, err))
	_ = fs.Put(mk("fst2:a/b", "x", 1))
	_ = fs.Put(mk("fst2:ab", "x", 1))
	got, err = keys(fs, "fst2:a")
	verdict("F5c", len(got) != 2, fmt.Sprintf("records a/b, ab: query with prefix a yields %v, err %v (a map: both)", got, err))

	// F6: fstree cannot take a record that is already deleted (immediate delete mode)
	d := mk("fst3:gone", "x", 1)
	d.CreateMeta()
	d.Meta().Delete()
	err = fs.Put(d)
	verdict("F6", err != nil, fmt.Sprintf("Put of a deleted record under a new key on fstree: %v (hashmap: %v)", err, func() error {
		h := mk("hmap:gone", "x", 1)
		h.CreateMeta()
		h.Meta().Delete()
		return fs.Put(h)
	}()))

	if reproduced > 0 {
		os.Exit(1)
	}
}
