package main

// Two scenario families next to the BFS, both plain enumerations on the real code:
//
//   bulk:          N records in mixed states (live, expired, shadow-deleted), N around bbolt's purge batch size
//                  of 1000 and large enough for a multi-page B+tree, then Purge / MaintainRecordStates, compared
//                  with the reference map (count, query result, raw storage).
//   storage-error: an unreadable raw record planted in the storage; a query that meets it must end its result
//                  stream and report the error through Iterator.Err() (sequential part of the error clause; the
//                  hand-over interleaving is engine S).

import (
	"context"
	"errors"
	"fmt"
	"os"
	"path/filepath"
	"runtime/debug"
	"strings"
	"time"

	"github.com/safing/portbase/database"
	"github.com/safing/portbase/database/query"
	"github.com/safing/portbase/database/storage"
	"github.com/safing/portbase/database/storage/badger"
	"github.com/safing/portbase/database/storage/bbolt"
	"github.com/safing/portbase/database/storage/fstree"
	vtime "github.com/safing/portbase/zzverif/vtime"

	"verif/vlib"
)

type scenarioWitness struct {
	Scenario string `json:"scenario"`
	Config   config `json:"config"`
	N        int    `json:"n,omitempty"`
	Variant  string `json:"variant,omitempty"`
}

type bulkVariant struct {
	name   string
	action string // purge | maintain
	prefix string
	cond   func() query.Condition
	match  func(c content) bool
}

var bulkVariants = []bulkVariant{
	{"Purge(prefix 'k')", "purge", "k", nil, nil},
	{"Purge('k' where I == 1)", "purge", "k", func() query.Condition { return query.Where("I", query.Equals, 1) }, func(c content) bool { return c.I == 1 }},
	{"Purge(prefix 'k0')", "purge", "k0", nil, nil},
	{"MaintainRecordStates(now)", "maintain", "", nil, nil},
}

func bulkKey(i int) string { return fmt.Sprintf("k%04d", i) }

// runBulk returns nil or a violation.
func runBulk(cfg config, n int, bv bulkVariant, verbose bool) (v *violation, outcome string, trans int64) {
	env, err := getEnv(cfg.Backend, cfg.Shadow)
	if err != nil {
		return &violation{clause: "ENGINE", detail: err.Error()}, "", 0
	}
	current.Store(running{cfg.String(), "scenario bulk", []string{fmt.Sprint(n), bv.name}})
	progress.Add(1)
	vtime.SetManual(true, time.Unix(t0, 0))
	if err := env.wipe(); err != nil {
		return &violation{clause: "ENGINE", detail: "wipe: " + err.Error()}, "", 0
	}
	m := &model{now: t0, recs: map[string]*entry{}}
	batcher, ok := env.st.(storage.Batcher)
	if !ok {
		return &violation{clause: "ENGINE", detail: "bulk scenario needs a batch capable backend"}, "", 0
	}
	batch, errs := batcher.PutMany(true) // keep the planted tombstones
	for i := 0; i < n; i++ {
		e := entry{c: contents[i%2], m: meta{C: t0 - 100, M: t0 - 100}}
		switch i % 4 {
		case 2:
			e.m.E = t0 - 50
		case 3:
			e.m.D = t0 - 50
		}
		ee := e
		m.recs[bulkKey(i)] = &ee
		select {
		case batch <- mkRecord(env.name, bulkKey(i), e.c, false, &e.m):
		case err := <-errs:
			return &violation{clause: "ENGINE", detail: fmt.Sprintf("seeding: %v", err)}, "", 0
		}
	}
	close(batch)
	if err := <-errs; err != nil {
		return &violation{clause: "ENGINE", detail: fmt.Sprintf("seeding: %v", err)}, "", 0
	}
	iface := database.NewInterface(&database.Options{Local: true, Internal: true})
	x := &exec{cfg: cfg, env: env, iface: iface, now: t0}
	layer := cfg.Backend
	site := layer + ":bulk-" + bv.action
	before, err := env.raw()
	if err != nil {
		return &violation{clause: "ENGINE", detail: "raw: " + err.Error()}, "", 0
	}
	var p any
	var stack string
	switch bv.action {
	case "purge":
		q := query.New(env.name + ":" + bv.prefix)
		if bv.cond != nil {
			q = q.Where(bv.cond())
		}
		var cnt int
		var perr error
		p, stack = vlib.Catch(func() { cnt, perr = iface.Purge(context.Background(), q) })
		if p != nil {
			break
		}
		if perr != nil {
			return &violation{"operation-result-equals-model", site, "count→error", fmt.Sprintf("%s on %d records: %v", bv.name, n, perr)}, "", 1
		}
		lo, hi := 0, 0
		for k, e := range m.recs {
			if !strings.HasPrefix(k, bv.prefix) || (bv.match != nil && !bv.match(e.c)) || e.m.D > 0 {
				continue
			}
			if m.visible(k) != nil {
				lo++
			}
			hi++
			e.m.D = m.now
		}
		outcome = fmt.Sprintf("bulk-purge:count-in-range=%v", cnt >= lo && cnt <= hi)
		if verbose {
			fmt.Printf("  %s on %d records returned %d (reference map: %d..%d)\n", bv.name, n, cnt, lo, hi)
		}
		if cnt < lo || cnt > hi {
			return &violation{"operation-result-equals-model", site, "count→other-count",
				fmt.Sprintf("%s on %d records returned %d, the reference map says %d (up to %d with expired records)", bv.name, n, cnt, lo, hi)}, outcome, 1
		}
	case "maintain":
		var merr error
		p, stack = vlib.Catch(func() { merr = env.ctrl.MaintainRecordStates(context.Background(), time.Unix(t0, 0)) })
		if p != nil {
			break
		}
		if merr != nil {
			return &violation{"operation-result-equals-model", site, "ok→error", fmt.Sprintf("MaintainRecordStates on %d records: %v", n, merr)}, "", 1
		}
		after, err := env.raw()
		if err != nil {
			return &violation{clause: "ENGINE", detail: "raw: " + err.Error()}, "", 0
		}
		removed := 0
		for k := range before {
			if _, still := after[k]; !still {
				removed++
				if m.visible(k) != nil {
					return &violation{"maintenance-removes-only-deleted-or-expired", site, "removed-visible-record",
						fmt.Sprintf("MaintainRecordStates on %d records physically removed the visible record %q", n, k)}, "", 1
				}
			}
		}
		outcome = fmt.Sprintf("bulk-maintain:removed-some=%v", removed > 0)
		if verbose {
			fmt.Printf("  MaintainRecordStates on %d records removed %d of %d raw records\n", n, removed, len(before))
		}
	}
	if p != nil {
		return &violation{"never-panics", site, vlib.PanicSite(stack), fmt.Sprintf("%s on %d records panicked: %v\n%s", bv.name, n, p, firstLines(stack, 14))}, "", 1
	}
	// what is visible afterwards
	qd := qdef{name: "prefix ''", prefix: "", pclass: "empty-prefix"}
	got, qerr, dup := runQuery(x, qd)
	if qerr != "" || dup != "" {
		return &violation{"query-yields-exactly-the-matching-visible-records", site, "failed:" + qerrClass(qerr), fmt.Sprintf("query after %s on %d records: %s %s", bv.name, n, qerr, dup)}, outcome, 2
	}
	extra, missing, wrong := []string{}, []string{}, []string{}
	for k, g := range got {
		e := m.visible(k)
		if e == nil {
			extra = append(extra, k)
		} else if g.c != e.c || g.m != e.m {
			wrong = append(wrong, k)
		}
	}
	for k := range m.recs {
		if m.visible(k) != nil {
			if _, ok := got[k]; !ok {
				missing = append(missing, k)
			}
		}
	}
	if verbose {
		fmt.Printf("  afterwards the query yields %d records; extra %d, missing %d, different %d\n", len(got), len(extra), len(missing), len(wrong))
	}
	disc := ""
	switch {
	case len(extra) > 0:
		disc = "extra-records"
	case len(missing) > 0:
		disc = "missing-records"
	case len(wrong) > 0:
		disc = "record-with-other-metadata"
	}
	if disc != "" {
		return &violation{"query-yields-exactly-the-matching-visible-records", site, disc,
			fmt.Sprintf("after %s on %d records (i%%4: 0,1 live, 2 expired, 3 deleted) the query for everything yields %d records: %d not visible in the reference map %v, %d visible ones missing %v, %d different %v",
				bv.name, n, len(got), len(extra), head(extra), len(missing), head(missing), len(wrong), head(wrong))}, outcome, 2
	}
	// a few Gets
	for _, i := range []int{0, 1, 2, 3, n / 2, n - 1} {
		if i < 0 || i >= n {
			continue
		}
		g, w := x.get(bulkKey(i)), modelGet(m, bulkKey(i))
		if d := diffResult(g, w); d != "" {
			return &violation{"get-returns-latest-or-notfound", site, d, fmt.Sprintf("after %s on %d records Get(%s) = %v, the reference map says %v", bv.name, n, bulkKey(i), g, w)}, outcome, 3
		}
	}
	return nil, outcome, 3
}

func head(l []string) []string {
	if len(l) > 5 {
		return append(append([]string{}, l[:5]...), "...")
	}
	return l
}

// ---- storage error scenario

func plantCorrupt(env *dbEnv, key string) error {
	garbage := []byte{0x02} // record version 2 does not exist
	switch s := env.st.(type) {
	case *bbolt.BBolt:
		return s.VerifRawPut(key, garbage)
	case *badger.Badger:
		return s.VerifRawPut(key, garbage)
	case *fstree.FSTree:
		p := filepath.Join(s.VerifBasePath(), filepath.FromSlash(key))
		if err := os.MkdirAll(filepath.Dir(p), 0o755); err != nil {
			return err
		}
		return os.WriteFile(p, garbage, 0o644)
	}
	return fmt.Errorf("cannot plant a corrupt record in %T", env.st)
}

func runStorageError(cfg config, verbose bool) (v *violation, outcome string, trans int64) {
	env, err := getEnv(cfg.Backend, cfg.Shadow)
	if err != nil {
		return &violation{clause: "ENGINE", detail: err.Error()}, "", 0
	}
	current.Store(running{cfg.String(), "scenario storage-error", nil})
	progress.Add(1)
	vtime.SetManual(true, time.Unix(t0, 0))
	if err := env.wipe(); err != nil {
		return &violation{clause: "ENGINE", detail: "wipe: " + err.Error()}, "", 0
	}
	good := entry{contents[0], meta{C: t0 - 100, M: t0 - 100}}
	if _, err := env.st.Put(mkRecord(env.name, "a/b", good.c, false, &good.m)); err != nil {
		return &violation{clause: "ENGINE", detail: "seed: " + err.Error()}, "", 0
	}
	if err := plantCorrupt(env, "b"); err != nil {
		return &violation{clause: "ENGINE", detail: "plant: " + err.Error()}, "", 0
	}
	iface := database.NewInterface(&database.Options{Local: true, Internal: true})
	site := cfg.Backend + ":Query[meets-unreadable-record]"
	const clause = "storage-error-reported-after-end-of-stream"
	var it interface {
		Err() error
	}
	var ended bool
	var delivered []string
	p, stack := vlib.Catch(func() {
		iter, err := iface.Query(query.New(env.name + ":"))
		if err != nil {
			// refusing the query outright also reports the error to the consumer
			ended = true
			it = errHolder{err}
			return
		}
		it = iter
		timeout := time.NewTimer(30 * time.Second)
		defer timeout.Stop()
		for {
			select {
			case r, ok := <-iter.Next:
				if !ok {
					ended = true
					return
				}
				delivered = append(delivered, r.DatabaseKey())
			case <-timeout.C:
				iter.Cancel()
				return
			}
		}
	})
	if p != nil {
		return &violation{"never-panics", site, vlib.PanicSite(stack), fmt.Sprintf("query over an unreadable record panicked: %v\n%s", p, firstLines(stack, 14))}, "", 1
	}
	if !ended {
		return &violation{clause, site, "no-end-of-stream", "the result stream of a query that meets an unreadable record did not end within 30 s"}, "", 1
	}
	// The hand-over race between closing Next and storing the error belongs to engine S: give the producer time.
	var qerr error
	for i := 0; i < 2000 && qerr == nil; i++ {
		if qerr = it.Err(); qerr == nil {
			time.Sleep(time.Millisecond)
		}
	}
	if verbose {
		fmt.Printf("  query over {a/b good, b unreadable}: delivered %v, stream ended, Err() = %v\n", delivered, qerr)
	}
	for _, k := range delivered {
		if k != "a/b" {
			return &violation{clause, site, "delivered-unreadable-record", fmt.Sprintf("the query delivered %v", delivered)}, "", 1
		}
	}
	if qerr == nil {
		return &violation{clause, site, "no-error-reported", fmt.Sprintf("a query met an unreadable raw record (delivered %v), its stream ended, but Iterator.Err() stayed nil for 2 s", delivered)}, "", 1
	}
	return nil, "storage-error:reported", 1
}

type errHolder struct{ err error }

func (e errHolder) Err() error { return e.err }

// ---- driver

func bulkSizes(quick bool) []int {
	if quick {
		return []int{1, 3, 999, 1000, 1001, 2001}
	}
	return []int{1, 2, 3, 4, 5, 999, 1000, 1001, 1999, 2000, 2001, 3001, 5000}
}

func runScenarios(c *vlib.Ctx, cfgs []config) {
	done := map[string]bool{}
	var trans, states int64
	for _, cf := range cfgs {
		plain := config{cf.Backend, cf.Shadow, "none"}
		if done[plain.String()] {
			continue
		}
		done[plain.String()] = true
		env, err := getEnv(plain.Backend, plain.Shadow)
		if err != nil {
			c.EngineError("scenario env: %v", err)
			return
		}
		if isBatcher(env.st) {
			for _, n := range bulkSizes(c.Quick()) {
				for _, bv := range bulkVariants {
					if bv.action == "purge" && !isPurger(env.st) {
						continue
					}
					v, outcome, t := runBulk(plain, n, bv, false)
					for attempt := 0; attempt < 3 && starved(v); attempt++ {
						v, outcome, t = runBulk(plain, n, bv, false)
					}
					if starved(v) {
						v = &violation{clause: "ENGINE", detail: "a wall-clock timeout inside portbase fired repeatedly (machine overloaded?): " + v.detail}
					}
					trans += t
					states++
					if outcome != "" {
						c.Outcome(outcome)
					}
					reportScenario(c, v, scenarioWitness{"bulk", plain, n, bv.name})
				}
			}
		}
		for _, cm := range []string{"none", "read"} {
			lc := config{plain.Backend, plain.Shadow, cm}
			v, outcome, t := runLongHistory(lc, longHistoryLen(c.Quick()), false)
			for attempt := 0; attempt < 3 && starved(v); attempt++ {
				v, outcome, t = runLongHistory(lc, longHistoryLen(c.Quick()), false)
			}
			if starved(v) {
				v = &violation{clause: "ENGINE", detail: "a wall-clock timeout inside portbase fired repeatedly (machine overloaded?): " + v.detail}
			}
			trans += t
			states++
			if outcome != "" {
				c.Outcome(outcome)
			}
			reportScenario(c, v, scenarioWitness{"long-history", lc, longHistoryLen(c.Quick()), ""})
		}
		if plain.Backend == "hashmap" || plain.Backend == "bbolt" {
			for _, which := range []string{"same-key", "other-key"} {
				v, outcome, t := runPutDuringFlush(plain, which, false)
				trans += t
				states++
				if outcome != "" {
					c.Outcome(outcome)
				}
				reportScenario(c, v, scenarioWitness{"put-during-flush", plain, 0, which})
			}
		}
		if plain.Backend != "hashmap" && !plain.Shadow {
			v, outcome, t := runStorageError(plain, false)
			for attempt := 0; attempt < 3 && starved(v); attempt++ {
				v, outcome, t = runStorageError(plain, false)
			}
			if starved(v) {
				v = &violation{clause: "ENGINE", detail: "a wall-clock timeout inside portbase fired repeatedly (machine overloaded?): " + v.detail}
			}
			trans += t
			states++
			if outcome != "" {
				c.Outcome(outcome)
			}
			reportScenario(c, v, scenarioWitness{"storage-error", plain, 0, ""})
		}
	}
	c.Add(states, trans, states)
	c.NontrivialN(states)
	c.Extra("scenario_runs", states)
	runConditions(c)
}

func reportScenario(c *vlib.Ctx, v *violation, w scenarioWitness) {
	if v == nil {
		return
	}
	if v.clause == "ENGINE" {
		c.EngineError("scenario %s %v n=%d %s: %s", w.Scenario, w.Config, w.N, w.Variant, v.detail)
		return
	}
	where := ""
	if w.Config.Backend != "" {
		where = fmt.Sprintf(", configuration %v", w.Config)
	}
	c.Violate(v.clause, v.site, v.disc, fmt.Sprintf("scenario %s%s: %s", w.Scenario, where, v.detail), w)
}

func replayScenario(c *vlib.Ctx, w scenarioWitness) {
	switch w.Scenario {
	case "bulk":
		for _, bv := range bulkVariants {
			if bv.name == w.Variant {
				fmt.Printf("replay: scenario bulk, configuration %v, %d records, %s\n", w.Config, w.N, bv.name)
				v, _, t := runBulk(w.Config, w.N, bv, true)
				c.Add(1, t, 1)
				if v != nil {
					fmt.Printf("replay: still violates: %s | %s | %s\n", v.clause, v.site, v.disc)
				} else {
					fmt.Println("replay: no violation")
				}
				reportScenario(c, v, w)
				return
			}
		}
		c.EngineError("replay: unknown bulk variant %q", w.Variant)
	case "storage-error":
		fmt.Printf("replay: scenario storage-error, configuration %v\n", w.Config)
		v, _, t := runStorageError(w.Config, true)
		c.Add(1, t, 1)
		if v != nil {
			fmt.Printf("replay: still violates: %s | %s | %s\n", v.clause, v.site, v.disc)
		} else {
			fmt.Println("replay: no violation")
		}
		reportScenario(c, v, w)
	case "put-during-flush":
		fmt.Printf("replay: scenario put-during-flush, configuration %v, %s\n", w.Config, w.Variant)
		v, _, t := runPutDuringFlush(w.Config, w.Variant, true)
		c.Add(1, t, 1)
		if v != nil {
			fmt.Printf("replay: still violates: %s | %s | %s\n", v.clause, v.site, v.disc)
		} else {
			fmt.Println("replay: no violation")
		}
		reportScenario(c, v, w)
	case "long-history":
		fmt.Printf("replay: scenario long-history, configuration %v, %d steps\n", w.Config, w.N)
		v, _, t := runLongHistory(w.Config, w.N, true)
		c.Add(1, t, 1)
		if v != nil {
			fmt.Printf("replay: still violates: %s | %s | %s\n", v.clause, v.site, v.disc)
		} else {
			fmt.Println("replay: no violation")
		}
		reportScenario(c, v, w)
	case "condition":
		replayCondition(c, w.Variant)
	default:
		c.EngineError("replay: unknown scenario %q", w.Scenario)
	}
}

// ---- long-history scenario: one scripted history far beyond the BFS depth.
// Three records are stored beforehand and never written again. The script then puts, overwrites and deletes other keys
// (sorting before, between and after them, value sizes growing and shrinking), each in its own write transaction, and
// after every step reads the three untouched records, the key just written and an earlier key back through the
// interface under test (i.e. through its read cache, if it has one) and compares them with the model.

func longHistoryLen(quick bool) int {
	if quick {
		return 48
	}
	return 200
}

func runLongHistory(cfg config, n int, verbose bool) (v *violation, outcome string, trans int64) {
	env, err := getEnv(cfg.Backend, cfg.Shadow)
	if err != nil {
		return &violation{clause: "ENGINE", detail: err.Error()}, "", 0
	}
	current.Store(running{cfg.String(), "scenario long-history", []string{fmt.Sprint(n)}})
	progress.Add(1)
	vtime.SetManual(true, time.Unix(t0, 0))
	if err := env.wipe(); err != nil {
		return &violation{clause: "ENGINE", detail: "wipe: " + err.Error()}, "", 0
	}
	m := &model{now: t0, recs: map[string]*entry{}}
	watched := []string{"k-c", "k-m", "k-x"}
	for i, k := range watched {
		// large enough that bbolt does not keep the bucket inline in its parent's page (inline buckets may be read from a heap copy)
		e := entry{content{S: "untouched record " + k + " " + strings.Repeat(string(rune('P'+i)), 400), I: int64(100 + i), F: 0.5, B: true}, meta{C: t0 - 100, M: t0 - 100}}
		if _, err := env.st.Put(mkRecord(env.name, k, e.c, false, &e.m)); err != nil {
			return &violation{clause: "ENGINE", detail: "seed: " + err.Error()}, "", 0
		}
		ee := e
		m.recs[k] = &ee
	}
	opts := &database.Options{Local: true, Internal: true}
	if cfg.Cache == "read" {
		opts.CacheSize = 256 // large enough that nothing is evicted: the untouched records stay cached
	}
	iface := database.NewInterface(opts)
	setCacheClock(iface)
	x := &exec{cfg: cfg, env: env, iface: iface, now: t0}
	site := fmt.Sprintf("%s/%s:long-history→Get", cfg.Backend, cfg.Cache)
	// a read that faults on memory the storage has given back must not kill the process
	defer debug.SetPanicOnFault(debug.SetPanicOnFault(true))
	check := func(step int, what string, keys ...string) *violation {
		for _, k := range keys {
			var got result
			p, stack := vlib.Catch(func() { got = x.get(k) })
			trans++
			if p != nil {
				return &violation{"never-panics", site, vlib.PanicSite(stack), fmt.Sprintf("step %d (%s): Get(%s) panicked: %v", step, what, k, p)}
			}
			want := modelGet(m, k)
			if verbose && os.Getenv("C02_DEBUG") != "" {
				fmt.Printf("    Get(%s) = %.120s\n", k, got.String())
			}
			if d := diffResult(got, want); d != "" {
				return &violation{"get-returns-latest-or-notfound", site, d,
					fmt.Sprintf("scripted history, step %d (%s): Get(%s) = %v, the reference map says %v (the records k-c, k-m, k-x were stored beforehand and are never written)", step, what, k, got, want)}
			}
		}
		return nil
	}
	if v := check(0, "first read of the untouched records", watched...); v != nil {
		return v, "", trans
	}
	var written []string
	for i := 0; i < n; i++ {
		var what, key string
		var opErr error
		p, stack := vlib.Catch(func() {
			switch {
			case i%7 == 6 && len(written) > 2: // delete an earlier key
				key = written[len(written)-3]
				what = "Delete(" + key + ")"
				opErr = iface.Delete(x.full(key))
				if e := m.visible(key); e != nil {
					e.m.update(m.now)
					e.m.D = m.now
				} else if opErr != nil && errors.Is(opErr, database.ErrNotFound) {
					opErr = nil
				}
			case i%5 == 4 && len(written) > 0: // overwrite an earlier key with a value of another size
				key = written[(i*7)%len(written)]
				ct := content{S: strings.Repeat(string(rune('A'+i%26)), 24*((i*5)%37+1)), I: int64(i), F: float64(i) / 4, B: i%2 == 0}
				what = fmt.Sprintf("Put(%s, %d bytes) overwriting", key, len(ct.S))
				opErr = iface.Put(mkRecord(env.name, key, ct, i%2 == 0, nil))
				e := &entry{c: ct}
				e.m.update(m.now)
				m.recs[key] = e
			default: // a new key before / between / after the untouched records
				key = fmt.Sprintf("k-%c%03d", "abdnyz"[i%6], i)
				ct := content{S: strings.Repeat(string(rune('a'+i%26)), 16*(i%40+1)), I: int64(i), F: float64(i) / 2, B: i%3 == 0}
				what = fmt.Sprintf("Put(%s, %d bytes)", key, len(ct.S))
				opErr = iface.Put(mkRecord(env.name, key, ct, i%2 == 0, nil))
				e := &entry{c: ct}
				e.m.update(m.now)
				m.recs[key] = e
				written = append(written, key)
			}
		})
		trans++
		if p != nil {
			return &violation{"never-panics", strings.Replace(site, "→Get", "", 1), vlib.PanicSite(stack), fmt.Sprintf("step %d (%s) panicked: %v", i+1, what, p)}, "", trans
		}
		if opErr != nil {
			return &violation{"operation-result-equals-model", strings.Replace(site, "→Get", "", 1), "ok→error", fmt.Sprintf("scripted history, step %d (%s) failed: %v", i+1, what, opErr)}, "", trans
		}
		if verbose {
			fmt.Printf("  step %d: %s\n", i+1, what)
		}
		keys := append(append([]string{}, watched...), key)
		if len(written) > 1 {
			keys = append(keys, written[(i*3)%len(written)])
		}
		if v := check(i+1, what, keys...); v != nil {
			return v, "", trans
		}
		if i%12 == 11 {
			vtime.AdvanceManual(time.Second)
			x.now++
			m.now++
		}
	}
	got, qerr, dup := runQuery(x, qdef{name: "prefix ''", pclass: "empty-prefix"})
	trans++
	qsite := fmt.Sprintf("%s/%s:long-history→Query", cfg.Backend, cfg.Cache)
	if qerr != "" || dup != "" {
		return &violation{"query-yields-exactly-the-matching-visible-records", qsite, "failed:" + qerrClass(qerr), "query after the scripted history: " + qerr + dup}, "", trans
	}
	for k := range got {
		if m.visible(k) == nil {
			return &violation{"query-yields-exactly-the-matching-visible-records", qsite, "extra-records", fmt.Sprintf("after the scripted history the query for everything yields %q, which is not visible in the reference map", k)}, "", trans
		}
	}
	for k, e := range m.recs {
		if m.visible(k) == nil {
			continue
		}
		g, ok := got[k]
		switch {
		case !ok:
			return &violation{"query-yields-exactly-the-matching-visible-records", qsite, "missing-records", fmt.Sprintf("after the scripted history the query for everything misses %q", k)}, "", trans
		case g.bad != "" || g.c != e.c:
			return &violation{"query-yields-exactly-the-matching-visible-records", qsite, "record-with-other-data", fmt.Sprintf("after the scripted history the query yields %v for %q, the reference map says %+v", g, k, e.c)}, "", trans
		case g.m != e.m:
			return &violation{"query-yields-exactly-the-matching-visible-records", qsite, "record-with-other-metadata", fmt.Sprintf("after the scripted history the query yields %v for %q, the reference map says %v", g, k, e.m)}, "", trans
		}
	}
	return nil, "long-history:completed", trans
}
