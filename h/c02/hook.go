package main

// Scenario "put-during-flush": a Put that happens while a flush of delayed writes is in progress.
//
// The quantifier offers get/put/delete "at any time" through a delayed write cache. A put concurrent with a
// DelayedCacheWriter flush is produced deterministically, without threads: the database of this scenario uses
// a storage type registered by the harness (public storage.Register) that wraps the real hashmap / bbolt storage
// and calls back into the harness when the flush's batch hands over its first record. At that moment:
//   - if the lock of the delayed write set is held (the flush keeps it for the whole batch, as on the unchanged
//     tree), a concurrent Put could only wait for the flush to end: the harness issues it right after the flush;
//   - if the lock is free (an implementation that releases it while the batch runs), the harness issues the Put
//     right there, inside the storage call, i.e. inside the window.
// Oracle: after this flush and one more flush the storage (read through a second, cache-less interface and by a
// query) holds the newest put.

import (
	"fmt"
	"sync"
	"time"

	"github.com/safing/portbase/database"
	"github.com/safing/portbase/database/record"
	"github.com/safing/portbase/database/storage"
	"github.com/safing/portbase/database/storage/bbolt"
	"github.com/safing/portbase/database/storage/hashmap"
	vtime "github.com/safing/portbase/zzverif/vtime"

	"verif/vlib"
)

// hookStore wraps a storage and reports the first record of every batch to a callback.
type hookStore struct {
	storage.Interface
	onFirstBatchRecord func(r record.Record)
}

func unwrapStore(s storage.Interface) storage.Interface {
	if h, ok := s.(*hookStore); ok {
		return h.Interface
	}
	return s
}

// PutMany implements storage.Batcher on top of the wrapped storage's batch.
func (h *hookStore) PutMany(shadowDelete bool) (chan<- record.Record, <-chan error) {
	inner, innerErrs := h.Interface.(storage.Batcher).PutMany(shadowDelete)
	batch := make(chan record.Record, 100)
	errs := make(chan error, 1)
	go func() {
		first := true
		for r := range batch {
			if first && h.onFirstBatchRecord != nil {
				first = false
				h.onFirstBatchRecord(r)
			}
			inner <- r
		}
		close(inner)
		errs <- <-innerErrs
	}()
	return batch, errs
}

var registerHooks sync.Once

func hookBackend(backend string) string { return "c02hook" + backend }

func registerHookStorages() {
	registerHooks.Do(func() {
		_ = storage.Register(hookBackend("hashmap"), func(name, location string) (storage.Interface, error) {
			s, err := hashmap.NewHashMap(name, location)
			if err != nil {
				return nil, err
			}
			return &hookStore{Interface: s}, nil
		})
		_ = storage.Register(hookBackend("bbolt"), func(name, location string) (storage.Interface, error) {
			s, err := bbolt.NewBBolt(name, location)
			if err != nil {
				return nil, err
			}
			return &hookStore{Interface: s}, nil
		})
	})
}

// runPutDuringFlush: cfg.Backend is hashmap or bbolt; which = "same-key" (the put replaces a record that the flush is
// writing) or "other-key" (the put adds a record next to it).
func runPutDuringFlush(cfg config, which string, verbose bool) (v *violation, outcome string, trans int64) {
	registerHookStorages()
	env, err := getEnv(hookBackend(cfg.Backend), cfg.Shadow)
	if err != nil {
		return &violation{clause: "ENGINE", detail: err.Error()}, "", 0
	}
	hs, ok := env.st.(*hookStore)
	if !ok {
		return &violation{clause: "ENGINE", detail: fmt.Sprintf("storage is %T, not the hook store", env.st)}, "", 0
	}
	current.Store(running{cfg.String(), "scenario put-during-flush", []string{which}})
	progress.Add(1)
	vtime.SetManual(true, time.Unix(t0, 0))
	hs.onFirstBatchRecord = nil
	if err := env.wipe(); err != nil {
		return &violation{clause: "ENGINE", detail: "wipe: " + err.Error()}, "", 0
	}
	iface := database.NewInterface(&database.Options{Local: true, Internal: true, CacheSize: 2, DelayCachedWrites: env.name})
	setCacheClock(iface)
	x := &exec{cfg: cfg, env: env, iface: iface, now: t0}
	site := "delayed-cache:Put-during-flush(" + which + ")"
	const clause = "put-during-flush-is-not-lost"
	key2 := "a"
	if which == "other-key" {
		key2 = "b"
	}
	newer := func() record.Record { return mkRecord(env.name, key2, contents[1], true, nil) }
	inside, lockHeld := false, false
	var putErr error
	hs.onFirstBatchRecord = func(record.Record) {
		hs.onFirstBatchRecord = nil
		if iface.VerifWriteCacheLocked() {
			lockHeld = true // a concurrent Put would wait for the end of the flush
			return
		}
		inside = true
		putErr = iface.Put(newer())
	}
	var p any
	var stack string
	var step string
	do := func(name string, f func() error) bool {
		step = name
		var e error
		p, stack = vlib.Catch(func() { e = f() })
		if p == nil && e != nil {
			v = &violation{"operation-result-equals-model", site, "ok→error", fmt.Sprintf("%s failed: %v", name, e)}
		}
		trans++
		return p == nil && v == nil
	}
	okAll := do("Put(a,c1)", func() error { return iface.Put(mkRecord(env.name, "a", contents[0], true, nil)) }) &&
		do("flush", func() error { return flush(iface) }) &&
		do("Put during flush", func() error {
			if inside {
				return putErr
			}
			return iface.Put(newer()) // ordered after the flush
		}) &&
		do("second flush", func() error { return flush(iface) })
	hs.onFirstBatchRecord = nil
	if p != nil {
		return &violation{"never-panics", site, vlib.PanicSite(stack), fmt.Sprintf("%s panicked: %v\n%s", step, p, firstLines(stack, 12))}, "", trans
	}
	if !okAll {
		return v, "", trans
	}
	if !inside && !lockHeld {
		return &violation{clause: "ENGINE", detail: "the flush did not hand any record to the storage batch"}, "", trans
	}
	outcome = "put-during-flush:ordered-after-flush(lock-held-for-the-whole-batch)"
	if inside {
		outcome = "put-during-flush:put-inside-the-batch-window"
	}
	// what the storage holds now: read through a second, cache-less interface
	plain := &exec{cfg: cfg, env: env, iface: database.NewInterface(&database.Options{Local: true, Internal: true}), now: t0}
	want := map[string]content{"a": contents[1]}
	if which == "other-key" {
		want = map[string]content{"a": contents[0], "b": contents[1]}
	}
	describe := fmt.Sprintf("Put(a,c1); flush, and while its batch hands the first record to the storage (write set lock held: %v): Put(%s,c2); second flush", lockHeld, key2)
	for k, wc := range want {
		g := plain.get(k)
		if verbose {
			fmt.Printf("  %s: another interface reads %s = %v (expected content %+v)\n", describe, k, g, wc)
		}
		switch {
		case g.cls != "found":
			return &violation{clause, site, "record-missing-in-storage", fmt.Sprintf("%s: another interface gets %v for %s, the reference map says %+v", describe, g, k, wc)}, outcome, trans
		case g.d.c != wc:
			return &violation{clause, site, "older-version-in-storage", fmt.Sprintf("%s: another interface reads %v for %s, the reference map says %+v", describe, g, k, wc)}, outcome, trans
		}
	}
	got, qerr, dup := runQuery(x, qdef{name: "prefix ''", pclass: "empty-prefix"})
	if qerr != "" || dup != "" {
		return &violation{"query-yields-exactly-the-matching-visible-records", site, "failed:" + qerrClass(qerr), describe + ": query: " + qerr + dup}, outcome, trans
	}
	for k, wc := range want {
		if g, ok := got[k]; !ok || g.c != wc {
			return &violation{clause, site, "older-version-in-query", fmt.Sprintf("%s: the query yields %v, the reference map says %s = %+v", describe, sortedVals(got), k, wc)}, outcome, trans
		}
	}
	if len(got) != len(want) {
		return &violation{clause, site, "extra-records-in-query", fmt.Sprintf("%s: the query yields %v", describe, sortedVals(got))}, outcome, trans
	}
	return nil, outcome, trans
}
