#!/bin/bash
# builds the C02 harness: portbase database packages compiled against the manual clock (clock mode),
# plus the Verif* export files under h/c02/overlay
set -e
cd /verif
[ -x bin/instr ] || (cd instr && go build -o /verif/bin/instr .)
rm -rf build/c02.ov && mkdir -p build/c02.ov
bin/instr -out build/c02.ov -clock database,database/record,database/storage/hashmap,database/storage/bbolt,database/storage/fstree,database/storage/badger -harness h/c02/overlay
go build -tags verif -overlay build/c02.ov/overlay.json -o "$1" ./h/c02
/verif/h/c02s/build.sh /verif/build/c02s
