package main

// Scenario family "condition": input enumeration of condition evaluation.
// For every operator of the query API x operand values x field values at the
// boundaries of the field's type, the query is evaluated on a typed record
// (struct accessor) and on its serialized twin (the record marshalled and
// loaded back exactly as the serialized backends do: JSON accessor) and
// compared with a small reference evaluator of the documented operator table
// (query/README.md: int64 / float64 / string / bool comparisons).
// Oracle: typed == serialized == reference. Operators applied to a field of
// another type are outside the documented semantics: they are evaluated and
// counted (outcome classes cross-type:*), never asserted.

import (
	"fmt"
	"math"
	"regexp"
	"strconv"
	"strings"
	"sync"

	"github.com/safing/portbase/database/query"
	"github.com/safing/portbase/database/record"

	"verif/vlib"
)

// CRec is the typed record of the condition family.
type CRec struct {
	record.Base
	sync.Mutex
	I int64
	F float64
	S string
	B bool
	L []string
}

type cvals struct {
	I int64
	F float64
	S string
	B bool
	L []string
}

func (v cvals) String() string {
	return fmt.Sprintf("{I:%d F:%s S:%q B:%v L:%#v}", v.I, strconv.FormatFloat(v.F, 'g', -1, 64), v.S, v.B, v.L)
}

var (
	condInts = []int64{0, 1, -1, 1 << 31, 1<<53 - 1, 1 << 53, 1<<53 + 1, math.MaxInt64 - 1, math.MaxInt64, math.MinInt64, math.MinInt64 + 1}
	// floats incl. values that are no integers and integers beyond 2^53 (NaN and the infinities cannot be stored as JSON)
	condFloats  = []float64{0, 1, -1, 0.5, -0.5, 1.5, 0.1, 1 << 31, 1 << 53, 1<<53 + 2, 1e300, -1e300, 5e-324, math.MaxFloat64}
	condStrings = []string{"", "a", "ab", "b", "A", " ", "é", "日本", "a\"b", "a\\b", "<&>", "a\nb", "\u2028", "a,b"}
	condLists   = [][]string{{}, {""}, {"a"}, {"a", "b"}, {"é", "日本"}, {"a,b", "<&>"}}
	condRegexes = []string{"", "^a", "b$", "^$", ".", "é", "^a.b$", "(?i)^a$", "\\\\", "["}
	condBools   = []any{true, false, "1", "t", "T", "TRUE", "true", "True", "0", "f", "F", "FALSE", "false", "False", "yes", ""}
)

type condCase struct {
	id      string
	op      string // operator name (signature site)
	cond    func() query.Condition
	vals    cvals
	want    bool   // reference result (if asserted and the query is valid)
	wantErr bool   // the query must be refused by Check
	cross   bool   // operator on a field of another type: not asserted
	leaf    string // for a negation: the id of the negated leaf (a failing leaf is not reported a second time as Not)
}

var opNames = map[uint8]string{
	query.Equals: "Equals", query.GreaterThan: "GreaterThan", query.GreaterThanOrEqual: "GreaterThanOrEqual", query.LessThan: "LessThan", query.LessThanOrEqual: "LessThanOrEqual",
	query.FloatEquals: "FloatEquals", query.FloatGreaterThan: "FloatGreaterThan", query.FloatGreaterThanOrEqual: "FloatGreaterThanOrEqual", query.FloatLessThan: "FloatLessThan", query.FloatLessThanOrEqual: "FloatLessThanOrEqual",
	query.SameAs: "SameAs", query.Contains: "Contains", query.StartsWith: "StartsWith", query.EndsWith: "EndsWith", query.In: "In", query.Matches: "Matches", query.Is: "Is", query.Exists: "Exists",
}

func cmpInt(op uint8, a, b int64) bool {
	switch op {
	case query.Equals:
		return a == b
	case query.GreaterThan:
		return a > b
	case query.GreaterThanOrEqual:
		return a >= b
	case query.LessThan:
		return a < b
	}
	return a <= b
}

func cmpFloat(op uint8, a, b float64) bool {
	switch op {
	case query.FloatEquals:
		return a == b
	case query.FloatGreaterThan:
		return a > b
	case query.FloatGreaterThanOrEqual:
		return a >= b
	case query.FloatLessThan:
		return a < b
	}
	return a <= b
}

func cmpString(op uint8, field, operand string) bool {
	switch op {
	case query.SameAs:
		return field == operand
	case query.Contains:
		return strings.Contains(field, operand)
	case query.StartsWith:
		return strings.HasPrefix(field, operand)
	}
	return strings.HasSuffix(field, operand)
}

var (
	intOps    = []uint8{query.Equals, query.GreaterThan, query.GreaterThanOrEqual, query.LessThan, query.LessThanOrEqual}
	floatOps  = []uint8{query.FloatEquals, query.FloatGreaterThan, query.FloatGreaterThanOrEqual, query.FloatLessThan, query.FloatLessThanOrEqual}
	stringOps = []uint8{query.SameAs, query.Contains, query.StartsWith, query.EndsWith}
)

func condCases() []condCase {
	var out []condCase
	base := cvals{I: 7, F: 7.25, S: "s", B: true, L: []string{"l"}}
	add := func(c condCase) {
		out = append(out, c)
		// the negation of every asserted leaf
		if !c.wantErr && !c.cross {
			n := c
			inner := c.cond
			n.id = "not " + c.id
			n.op = "Not"
			n.leaf = c.id
			n.cond = func() query.Condition { return query.Not(inner()) }
			n.want = !c.want
			out = append(out, n)
		}
	}
	// --- integer operators on an int64 field
	for _, op := range intOps {
		for _, operand := range condInts {
			for _, asString := range []bool{false, true} {
				for _, fv := range condInts {
					op, operand, asString, fv := op, operand, asString, fv
					v := base
					v.I = fv
					var val any = operand
					form := "int64"
					if asString {
						val, form = strconv.FormatInt(operand, 10), "string"
					}
					add(condCase{id: fmt.Sprintf("I %s %s:%d | I=%d", opNames[op], form, operand, fv), op: opNames[op],
						cond: func() query.Condition { return query.Where("I", op, val) }, vals: v, want: cmpInt(op, fv, operand)})
				}
			}
		}
	}
	// --- float operators on a float64 field
	for _, op := range floatOps {
		for _, operand := range condFloats {
			for _, asString := range []bool{false, true} {
				for _, fv := range condFloats {
					op, operand, asString, fv := op, operand, asString, fv
					v := base
					v.F = fv
					var val any = operand
					form := "float64"
					if asString {
						val, form = strconv.FormatFloat(operand, 'g', -1, 64), "string"
					}
					add(condCase{id: fmt.Sprintf("F %s %s:%s | F=%s", opNames[op], form, strconv.FormatFloat(operand, 'g', -1, 64), strconv.FormatFloat(fv, 'g', -1, 64)), op: opNames[op],
						cond: func() query.Condition { return query.Where("F", op, val) }, vals: v, want: cmpFloat(op, fv, operand)})
				}
			}
		}
	}
	// --- string operators
	for _, op := range stringOps {
		for _, operand := range condStrings {
			for _, fv := range condStrings {
				op, operand, fv := op, operand, fv
				v := base
				v.S = fv
				add(condCase{id: fmt.Sprintf("S %s %q | S=%q", opNames[op], operand, fv), op: opNames[op],
					cond: func() query.Condition { return query.Where("S", op, operand) }, vals: v, want: cmpString(op, fv, operand)})
			}
		}
	}
	// --- In: the field's string is one of the operand's strings
	for _, operand := range condLists {
		for _, fv := range condStrings {
			operand, fv := operand, fv
			v := base
			v.S = fv
			want := false
			for _, s := range operand {
				want = want || s == fv
			}
			add(condCase{id: fmt.Sprintf("S In %q | S=%q", operand, fv), op: "In",
				cond: func() query.Condition { return query.Where("S", query.In, operand) }, vals: v, want: want})
		}
	}
	for _, fv := range condStrings { // the textual operand form: comma separated, at least two elements
		fv := fv
		v := base
		v.S = fv
		add(condCase{id: fmt.Sprintf("S In string:\"a,b\" | S=%q", fv), op: "In",
			cond: func() query.Condition { return query.Where("S", query.In, "a,b") }, vals: v, want: fv == "a" || fv == "b"})
	}
	// --- Matches
	for _, re := range condRegexes {
		compiled, err := regexp.Compile(re)
		for _, fv := range condStrings {
			re, fv := re, fv
			v := base
			v.S = fv
			cc := condCase{id: fmt.Sprintf("S Matches %q | S=%q", re, fv), op: "Matches",
				cond: func() query.Condition { return query.Where("S", query.Matches, re) }, vals: v}
			if err != nil {
				cc.wantErr = true
			} else {
				cc.want = compiled.MatchString(fv)
			}
			add(cc)
		}
	}
	// --- Is
	for _, operand := range condBools {
		for _, fv := range []bool{true, false} {
			operand, fv := operand, fv
			v := base
			v.B = fv
			cc := condCase{id: fmt.Sprintf("B Is %T:%v | B=%v", operand, operand, fv), op: "Is",
				cond: func() query.Condition { return query.Where("B", query.Is, operand) }, vals: v}
			switch o := operand.(type) {
			case bool:
				cc.want = fv == o
			case string:
				b, err := strconv.ParseBool(o)
				if err != nil {
					cc.wantErr = true
				} else {
					cc.want = fv == b
				}
			}
			add(cc)
		}
	}
	// --- Exists
	for _, l := range [][]string{nil, {}, {"a"}} {
		for _, key := range []string{"I", "F", "S", "B", "L", "Nope", ""} {
			l, key := l, key
			v := base
			v.L = l
			v.S = ""
			add(condCase{id: fmt.Sprintf("%q Exists | L=%#v", key, l), op: "Exists",
				cond: func() query.Condition { return query.Where(key, query.Exists, nil) }, vals: v, want: key != "Nope" && key != ""})
		}
	}
	// --- And / Or over pairs of integer leaves
	pairOperands := []int64{0, 1<<53 + 1, math.MaxInt64}
	for _, a := range pairOperands {
		for _, b := range pairOperands {
			for _, fv := range condInts {
				a, b, fv := a, b, fv
				v := base
				v.I = fv
				add(condCase{id: fmt.Sprintf("(I > %d and I <= %d) | I=%d", a, b, fv), op: "And",
					cond: func() query.Condition {
						return query.And(query.Where("I", query.GreaterThan, a), query.Where("I", query.LessThanOrEqual, b))
					}, vals: v, want: fv > a && fv <= b})
				add(condCase{id: fmt.Sprintf("(I == %d or I < %d) | I=%d", a, b, fv), op: "Or",
					cond: func() query.Condition {
						return query.Or(query.Where("I", query.Equals, a), query.Where("I", query.LessThan, b))
					}, vals: v, want: fv == a || fv < b})
			}
		}
	}
	// --- operators on a field of another type: evaluated, counted, not asserted
	for _, op := range floatOps {
		for _, fv := range condInts {
			op, fv := op, fv
			v := base
			v.I = fv
			add(condCase{id: fmt.Sprintf("I %s 1 | I=%d", opNames[op], fv), op: opNames[op] + "-on-int-field", cross: true,
				cond: func() query.Condition { return query.Where("I", op, 1.0) }, vals: v})
		}
	}
	for _, op := range intOps {
		for _, fv := range condFloats {
			op, fv := op, fv
			v := base
			v.F = fv
			add(condCase{id: fmt.Sprintf("F %s 1 | F=%s", opNames[op], strconv.FormatFloat(fv, 'g', -1, 64)), op: opNames[op] + "-on-float-field", cross: true,
				cond: func() query.Condition { return query.Where("F", op, 1) }, vals: v})
		}
		op := op
		add(condCase{id: fmt.Sprintf("S %s 1 | S=\"1\"", opNames[op]), op: opNames[op] + "-on-string-field", cross: true,
			cond: func() query.Condition { return query.Where("S", op, 1) }, vals: cvals{S: "1"}})
	}
	for _, op := range stringOps {
		op := op
		add(condCase{id: fmt.Sprintf("I %s \"7\" | I=7", opNames[op]), op: opNames[op] + "-on-int-field", cross: true,
			cond: func() query.Condition { return query.Where("I", op, "7") }, vals: base})
	}
	return out
}

// twins builds the typed record and its serialized twin (marshalled and loaded back as the serialized backends do).
func twins(v cvals) (typed record.Record, serialized record.Record, err error) {
	t := &CRec{I: v.I, F: v.F, S: v.S, B: v.B, L: v.L}
	t.SetKey("cond:k")
	t.UpdateMeta()
	raw, err := t.MarshalRecord(t)
	if err != nil {
		return nil, nil, err
	}
	w, err := record.NewRawWrapper("cond", "k", raw)
	if err != nil {
		return nil, nil, err
	}
	return t, w, nil
}

// runCondCase returns a violation or nil, the outcome class and whether the case was asserted.
func runCondCase(cc condCase, verbose bool) (*violation, string) {
	typed, ser, err := twins(cc.vals)
	if err != nil {
		return &violation{clause: "ENGINE", detail: "twins: " + err.Error()}, ""
	}
	const clause = "condition-evaluates-as-documented-for-typed-and-serialized-records"
	site := "condition:" + cc.op
	var q *query.Query
	var cerr error
	var rt, rs bool
	p, stack := vlib.Catch(func() {
		q, cerr = query.New("cond:").Where(cc.cond()).Check()
		if cerr == nil {
			rt = q.MatchesRecord(typed)
			rs = q.MatchesRecord(ser)
		}
	})
	if p != nil {
		return &violation{"never-panics", site, vlib.PanicSite(stack), fmt.Sprintf("condition %s on record %v panicked: %v\n%s", cc.id, cc.vals, p, firstLines(stack, 12))}, ""
	}
	if verbose {
		fmt.Printf("  %s on %v: check error %v, typed record %v, serialized record %v; reference: error %v, match %v (asserted: %v)\n", cc.id, cc.vals, cerr, rt, rs, cc.wantErr, cc.want, !cc.cross)
	}
	if cc.cross {
		switch {
		case cerr != nil:
			return nil, "cross-type:query-refused"
		case rt == rs:
			return nil, "cross-type:typed=serialized"
		}
		return nil, "cross-type:typed≠serialized(not asserted)"
	}
	if cc.wantErr {
		if cerr == nil {
			return &violation{clause, site, "invalid-operand-accepted", fmt.Sprintf("condition %s: Check accepted the query although the operand is invalid", cc.id)}, ""
		}
		return nil, "condition:refused-as-documented"
	}
	if cerr != nil {
		return &violation{clause, site, "valid-query-refused", fmt.Sprintf("condition %s: Check refused the query: %v", cc.id, cerr)}, ""
	}
	disc := ""
	switch {
	case rt == cc.want && rs != cc.want:
		disc = "serialized-record-differs"
	case rt != cc.want && rs == cc.want:
		disc = "typed-record-differs"
	case rt != cc.want && rs != cc.want:
		disc = "both-differ-from-documented-result"
	}
	if disc != "" {
		return &violation{clause, site, disc, fmt.Sprintf("condition [%s] on the record %v: typed record matches = %v, serialized twin matches = %v, the documented operator semantics say %v", cc.id, cc.vals, rt, rs, cc.want)}, ""
	}
	return nil, fmt.Sprintf("condition:match=%v", cc.want)
}

func runConditions(c *vlib.Ctx) {
	cases := condCases()
	outcomes := map[string]int64{}
	var asserted int64
	failed := map[string]bool{}
	for _, cc := range cases {
		progress.Add(1)
		if cc.leaf != "" && failed[cc.leaf] {
			continue
		}
		v, outcome := runCondCase(cc, false)
		if outcome != "" {
			outcomes[outcome]++
		}
		if !cc.cross {
			asserted++
		}
		if v != nil {
			failed[cc.id] = true
			reportScenario(c, v, scenarioWitness{Scenario: "condition", Variant: cc.id})
		}
	}
	for k, n := range outcomes {
		c.OutcomeN(k, n)
	}
	c.Add(int64(len(cases)), int64(2*len(cases)), int64(len(cases)))
	c.NontrivialN(asserted)
	c.Extra("condition_cases", len(cases))
	c.Extra("condition_cases_asserted", asserted)
}

func replayCondition(c *vlib.Ctx, id string) {
	for _, cc := range condCases() {
		if cc.id == id {
			fmt.Printf("replay: scenario condition, case %s\n", id)
			v, _ := runCondCase(cc, true)
			c.Add(1, 2, 1)
			if v != nil {
				fmt.Printf("replay: still violates: %s | %s | %s\n", v.clause, v.site, v.disc)
				reportScenario(c, v, scenarioWitness{Scenario: "condition", Variant: id})
			} else {
				fmt.Println("replay: no violation")
			}
			return
		}
	}
	c.EngineError("replay: unknown condition case %q", id)
}
