//go:build verif

package bbolt

import (
	"go.etcd.io/bbolt"
)

// VerifDump returns a copy of all raw key -> value pairs.
func (b *BBolt) VerifDump() (map[string][]byte, error) {
	out := map[string][]byte{}
	err := b.db.View(func(tx *bbolt.Tx) error {
		return tx.Bucket(bucketName).ForEach(func(k, v []byte) error {
			out[string(k)] = append([]byte{}, v...)
			return nil
		})
	})
	return out, err
}

// VerifWipe removes all records by dropping and re-creating the bucket.
func (b *BBolt) VerifWipe() error {
	return b.db.Update(func(tx *bbolt.Tx) error {
		if err := tx.DeleteBucket(bucketName); err != nil {
			return err
		}
		_, err := tx.CreateBucket(bucketName)
		return err
	})
}

// VerifNoBatchDelay makes bbolt start a batch transaction immediately instead of
// waiting 10 ms for further callers (a tuning knob of bbolt, no change of behaviour).
func (b *BBolt) VerifNoBatchDelay() { b.db.MaxBatchDelay = 0 }

// VerifRawPut stores raw bytes under a key (used to plant an unreadable record).
func (b *BBolt) VerifRawPut(key string, value []byte) error {
	return b.db.Update(func(tx *bbolt.Tx) error {
		return tx.Bucket(bucketName).Put([]byte(key), value)
	})
}
