//go:build verif

package fstree

// VerifBasePath returns the directory that holds the record files.
func (fst *FSTree) VerifBasePath() string { return fst.basePath }
