//go:build verif

package badger

import (
	"github.com/dgraph-io/badger"
)

// VerifDump returns a copy of all raw key -> value pairs badger itself still serves.
func (b *Badger) VerifDump() (map[string][]byte, error) {
	out := map[string][]byte{}
	err := b.db.View(func(txn *badger.Txn) error {
		it := txn.NewIterator(badger.DefaultIteratorOptions)
		defer it.Close()
		for it.Rewind(); it.Valid(); it.Next() {
			v, err := it.Item().ValueCopy(nil)
			if err != nil {
				return err
			}
			out[string(it.Item().KeyCopy(nil))] = v
		}
		return nil
	})
	return out, err
}

// VerifWipe deletes all keys.
func (b *Badger) VerifWipe() error {
	keys := [][]byte{}
	err := b.db.View(func(txn *badger.Txn) error {
		opts := badger.DefaultIteratorOptions
		opts.PrefetchValues = false
		it := txn.NewIterator(opts)
		defer it.Close()
		for it.Rewind(); it.Valid(); it.Next() {
			keys = append(keys, it.Item().KeyCopy(nil))
		}
		return nil
	})
	if err != nil || len(keys) == 0 {
		return err
	}
	return b.db.Update(func(txn *badger.Txn) error {
		for _, k := range keys {
			if err := txn.Delete(k); err != nil {
				return err
			}
		}
		return nil
	})
}

// VerifRawPut stores raw bytes under a key (used to plant an unreadable record).
func (b *Badger) VerifRawPut(key string, value []byte) error {
	return b.db.Update(func(txn *badger.Txn) error {
		return txn.Set([]byte(key), value)
	})
}

// VerifDropAll drops all data including badger's own tombstones and old versions
// (keeps the LSM tree small when a database is reused for many histories).
func (b *Badger) VerifDropAll() error { return b.db.DropAll() }
