//go:build verif

package hashmap

import "github.com/safing/portbase/database/record"

// VerifDump returns a copy of the key -> record object map.
func (hm *HashMap) VerifDump() map[string]record.Record {
	hm.dbLock.RLock()
	defer hm.dbLock.RUnlock()
	out := make(map[string]record.Record, len(hm.db))
	for k, v := range hm.db {
		out[k] = v
	}
	return out
}

// VerifWipe removes everything (same state as a freshly created hashmap).
func (hm *HashMap) VerifWipe() {
	hm.dbLock.Lock()
	defer hm.dbLock.Unlock()
	hm.db = make(map[string]record.Record)
}
