//go:build verif

package database

import (
	"github.com/bluele/gcache"

	"github.com/safing/portbase/database/record"
	"github.com/safing/portbase/database/storage"
)

// VerifController returns (and starts, if necessary) the controller of a registered database.
func VerifController(name string) (*Controller, error) { return getController(name) }

// VerifStorage exposes the storage backend of a controller (raw storage access for the
// "physically removes only ..." clause, for seeding and for wiping between histories).
func (c *Controller) VerifStorage() storage.Interface { return c.storage }

// VerifCache exposes the read cache of an interface (nil if none).
func (i *Interface) VerifCache() gcache.Cache { return i.cache }

// VerifWriteCache returns a copy of the delayed write set of an interface.
func (i *Interface) VerifWriteCache() map[string]record.Record {
	i.writeCacheLock.Lock()
	defer i.writeCacheLock.Unlock()
	out := make(map[string]record.Record, len(i.writeCache))
	for k, v := range i.writeCache {
		out[k] = v
	}
	return out
}

// VerifWriteCacheLocked reports whether the lock of the delayed write set is held right now
// (by a flush in progress): a Put at this moment would have to wait for it.
func (i *Interface) VerifWriteCacheLocked() bool {
	if i.writeCacheLock.TryLock() {
		i.writeCacheLock.Unlock()
		return false
	}
	return true
}
