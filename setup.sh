#!/bin/bash
# Run once after a fresh restore (offline): builds the framework from files on disk and warms the build cache.
set -u
export GOFLAGS=-mod=mod GOPROXY=off GOSUMDB=off GOTOOLCHAIN=local
cd /verif || exit 2
mkdir -p build bin evidence/replays
cp /repo/go.sum /verif/go.sum
rc=0
for d in h/*/; do
  [ -f "$d/main.go" ] || continue
  id=$(basename "$d")
  if [ -x "h/$id/build.sh" ]; then
    "h/$id/build.sh" "build/$id" > "build/$id.buildlog" 2>&1 || { echo "setup: build of $id failed"; cat "build/$id.buildlog"; rc=2; }
  else
    go build -o "build/$id" "./h/$id" > "build/$id.buildlog" 2>&1 || { echo "setup: build of $id failed"; cat "build/$id.buildlog"; rc=2; }
  fi
done
echo "setup done rc=$rc"
exit $rc
