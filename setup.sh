#!/bin/bash
# Run once after a fresh restore (offline): builds the framework from files on disk, warms the build cache
# and runs the engine self-tests.
set -u
export GOFLAGS=-mod=mod GOPROXY=off GOSUMDB=off GOTOOLCHAIN=local
cd /verif || exit 2
mkdir -p build bin evidence/replays
rc=0
(cd instr && go build -o /verif/bin/instr .) || { echo "setup: build of instr failed"; rc=2; }
build_one() {
  id="$1"
  if [ -x "h/$id/build.sh" ]; then
    "h/$id/build.sh" "build/$id" > "build/$id.buildlog" 2>&1 || { echo "setup: build of $id failed"; cat "build/$id.buildlog"; return 2; }
  else
    go build -o "build/$id" "./h/$id" > "build/$id.buildlog" 2>&1 || { echo "setup: build of $id failed"; cat "build/$id.buildlog"; return 2; }
  fi
}
for d in h/*/; do
  [ -f "$d/main.go" ] || continue
  build_one "$(basename "$d")" || rc=2
done
if [ -x build/selftest ]; then
  build/selftest > build/selftest.log 2>&1 || { echo "setup: engine S selftest failed"; cat build/selftest.log; rc=2; }
fi
echo "setup done rc=$rc"
exit $rc
