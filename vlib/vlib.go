// Package vlib is the shared reporting layer of all harnesses: flags, evidence
// files, known-findings matching, VIOLATION / KNOWN-FINDING lines, replay
// artefacts and exit codes (0 held, 1 violation, 2 engine error).
package vlib

import (
	"crypto/sha256"
	"encoding/hex"
	"encoding/json"
	"flag"
	"fmt"
	"os"
	"os/exec"
	"path/filepath"
	"runtime/debug"
	"runtime/pprof"
	"sort"
	"strconv"
	"strings"
	"sync"
	"time"
)

// Root is where /verif lives.
const Root = "/verif"

// Finding is one entry of known_findings.json.
type Finding struct {
	Property  string          `json:"property"`
	Status    string          `json:"status"` // "known" or "fixed"
	Signature string          `json:"signature"`
	Commit    string          `json:"commit,omitempty"`
	What      string          `json:"what"`
	Witness   json.RawMessage `json:"witness,omitempty"`
}

// Violation is one property violation found by a harness.
type Violation struct {
	Property  string `json:"property"`
	Signature string `json:"signature"` // clause|site|discriminator
	Clause    string `json:"clause"`
	Detail    string `json:"detail"`
	Scenario  string `json:"scenario,omitempty"`
	Witness   any    `json:"witness"`
	Count     int    `json:"count"`
}

// Ctx is handed to the harness body.
type Ctx struct {
	ID       string
	Level    string
	Tier     string
	Seed     int
	Replay   string // path of a replay file, "" otherwise
	Shard    int
	Shards   int
	Out      string // shard result file
	ClaimDir string // directory used as a work queue shared by the shard workers
	Workers  int
	start    time.Time
	deadline time.Time

	mu           sync.Mutex
	states       int64
	transitions  int64
	evaluations  int64
	validated    int64
	outcomes     map[string]int64
	nontrivial   map[string]struct{}
	nontrivialN  int64
	samples      []any
	viol         map[string]*Violation
	violOrder    []string
	assumptions  []string
	extra        map[string]any
	exhaustive   bool
	notExhReason []string
	rule         string
	scenarios    []string
	engineErr    []string
}

// Quick reports whether the tier is quick.
func (c *Ctx) Quick() bool { return c.Tier != "thorough" }

// Pick returns q for quick, t for thorough.
func Pick[T any](c *Ctx, q, t T) T {
	if c.Quick() {
		return q
	}
	return t
}

// Expired reports whether the internal wall-clock budget is used up; the
// harness then stops enumerating and the run is reported as not exhaustive.
func (c *Ctx) Expired() bool {
	if time.Now().After(c.deadline) {
		c.NotExhaustive("internal wall-clock budget reached")
		return true
	}
	return false
}

// SetBudget sets the wall-clock budget (from now).
func (c *Ctx) SetBudget(d time.Duration) { c.deadline = time.Now().Add(d) }

// NotExhaustive records a cap that was hit.
func (c *Ctx) NotExhaustive(reason string) {
	c.mu.Lock()
	defer c.mu.Unlock()
	c.exhaustive = false
	for _, r := range c.notExhReason {
		if r == reason {
			return
		}
	}
	c.notExhReason = append(c.notExhReason, reason)
}

// Add adds to the coverage counters.
func (c *Ctx) Add(states, transitions, evaluations int64) {
	c.mu.Lock()
	c.states += states
	c.transitions += transitions
	c.evaluations += evaluations
	c.validated += evaluations
	c.mu.Unlock()
}

// Outcome counts a distinct observed outcome class.
func (c *Ctx) Outcome(k string) {
	c.mu.Lock()
	c.outcomes[k]++
	c.mu.Unlock()
}

// OutcomeN counts n observations of an outcome class.
func (c *Ctx) OutcomeN(k string, n int64) {
	c.mu.Lock()
	c.outcomes[k] += n
	c.mu.Unlock()
}

// Nontrivial records one distinct non-trivial case by its canonical key
// (hashed; the set is kept up to 4M entries, beyond that counted by number).
func (c *Ctx) Nontrivial(key string) {
	h := sha256.Sum256([]byte(key))
	k := string(h[:10])
	c.mu.Lock()
	if _, ok := c.nontrivial[k]; !ok {
		if len(c.nontrivial) < 4_000_000 {
			c.nontrivial[k] = struct{}{}
		}
		c.nontrivialN++
	}
	c.mu.Unlock()
}

// NontrivialN adds n cases that the harness itself knows to be distinct.
func (c *Ctx) NontrivialN(n int64) {
	c.mu.Lock()
	c.nontrivialN += n
	c.mu.Unlock()
}

// Sample records an example case (kept: first 12).
func (c *Ctx) Sample(x any) {
	c.mu.Lock()
	if len(c.samples) < 12 {
		c.samples = append(c.samples, x)
	}
	c.mu.Unlock()
}

// Rule sets the enumeration rule text.
func (c *Ctx) Rule(s string) { c.rule = s }

// Scenario records a scenario name.
func (c *Ctx) Scenario(s string) {
	c.mu.Lock()
	c.scenarios = append(c.scenarios, s)
	c.mu.Unlock()
}

// Assume records an assumption.
func (c *Ctx) Assume(s string) {
	c.mu.Lock()
	for _, a := range c.assumptions {
		if a == s {
			c.mu.Unlock()
			return
		}
	}
	c.assumptions = append(c.assumptions, s)
	c.mu.Unlock()
}

// Extra sets an extra coverage key.
func (c *Ctx) Extra(k string, v any) {
	c.mu.Lock()
	c.extra[k] = v
	c.mu.Unlock()
}

// ExtraAdd adds to a numeric extra coverage key.
func (c *Ctx) ExtraAdd(k string, n int64) {
	c.mu.Lock()
	old, _ := c.extra[k].(int64)
	c.extra[k] = old + n
	c.mu.Unlock()
}

// EngineError records an engine failure (exit 2, never a VIOLATION).
func (c *Ctx) EngineError(format string, a ...any) {
	c.mu.Lock()
	c.engineErr = append(c.engineErr, fmt.Sprintf(format, a...))
	c.mu.Unlock()
}

// Violate records a violation. clause = the oracle clause, site = failing API
// call or scenario, disc = discriminator (see DESIGN 5.5).
func (c *Ctx) Violate(clause, site, disc, detail string, witness any) {
	sig := clause + "|" + site + "|" + disc
	c.mu.Lock()
	defer c.mu.Unlock()
	if v, ok := c.viol[sig]; ok {
		v.Count++
		return
	}
	c.viol[sig] = &Violation{Property: c.ID, Signature: sig, Clause: clause, Detail: detail, Witness: witness, Count: 1}
	c.violOrder = append(c.violOrder, sig)
}

// HasViolation reports whether the signature was already recorded.
func (c *Ctx) HasViolation(clause, site, disc string) bool {
	sig := clause + "|" + site + "|" + disc
	c.mu.Lock()
	defer c.mu.Unlock()
	_, ok := c.viol[sig]
	return ok
}

// ViolationCount returns the number of distinct signatures recorded.
func (c *Ctx) ViolationCount() int {
	c.mu.Lock()
	defer c.mu.Unlock()
	return len(c.viol)
}

// LoadReplay decodes the witness of the replay file into v.
func (c *Ctx) LoadReplay(v any) (*Violation, error) {
	b, err := os.ReadFile(c.Replay)
	if err != nil {
		return nil, err
	}
	var raw struct {
		Violation
		Witness json.RawMessage `json:"witness"`
	}
	if err := json.Unmarshal(b, &raw); err != nil {
		return nil, err
	}
	if v != nil {
		if err := json.Unmarshal(raw.Witness, v); err != nil {
			return nil, err
		}
	}
	vv := raw.Violation
	return &vv, nil
}

type shardResult struct {
	States, Transitions, Evaluations, Validated int64
	Outcomes                                    map[string]int64
	NontrivialKeys                              []string
	NontrivialN                                 int64
	Samples                                     []any
	Violations                                  []*Violation
	Assumptions                                 []string
	Extra                                       map[string]any
	Exhaustive                                  bool
	NotExhReason                                []string
	Scenarios                                   []string
	EngineErr                                   []string
	Rule                                        string
}

// Main runs a harness.
func Main(id, level string, body func(c *Ctx)) {
	tier := flag.String("tier", envOr("VERIF_TIER", "quick"), "quick|thorough")
	replay := flag.String("replay", "", "replay file")
	shard := flag.String("shard", "", "i/n (internal)")
	out := flag.String("out", "", "shard result file (internal)")
	budget := flag.Duration("budget", 0, "wall-clock budget")
	workers := flag.Int("workers", 16, "worker count")
	claim := flag.String("claim", "", "claim directory (internal)")
	flag.Parse()
	seed, _ := strconv.Atoi(envOr("VERIF_SEED", "0"))
	c := &Ctx{ID: id, Level: level, Tier: *tier, Seed: seed, Replay: *replay, Out: *out, Workers: *workers, ClaimDir: *claim,
		start: time.Now(), outcomes: map[string]int64{}, nontrivial: map[string]struct{}{}, viol: map[string]*Violation{},
		extra: map[string]any{}, exhaustive: true, Shards: 1}
	if *shard != "" {
		fmt.Sscanf(*shard, "%d/%d", &c.Shard, &c.Shards)
	}
	b := *budget
	if b == 0 {
		b = Pick(c, 8*time.Minute, 25*time.Minute)
	}
	c.deadline = time.Now().Add(b)
	if pf := os.Getenv("VERIF_CPUPROFILE"); pf != "" {
		if f, err := os.Create(pf); err == nil {
			_ = pprof.StartCPUProfile(f)
			defer pprof.StopCPUProfile()
		}
	}
	func() {
		defer func() {
			if r := recover(); r != nil {
				c.EngineError("harness panic: %v\n%s", r, debug.Stack())
			}
		}()
		body(c)
	}()
	if c.Out != "" {
		c.writeShard()
		return
	}
	pprof.StopCPUProfile()
	os.Exit(c.Finish())
}

func envOr(k, d string) string {
	if v := os.Getenv(k); v != "" {
		return v
	}
	return d
}

func (c *Ctx) writeShard() {
	r := shardResult{States: c.states, Transitions: c.transitions, Evaluations: c.evaluations, Validated: c.validated,
		Outcomes: c.outcomes, NontrivialN: c.nontrivialN, Samples: c.samples, Assumptions: c.assumptions, Extra: c.extra,
		Exhaustive: c.exhaustive, NotExhReason: c.notExhReason, Scenarios: c.scenarios, EngineErr: c.engineErr, Rule: c.rule}
	for k := range c.nontrivial {
		r.NontrivialKeys = append(r.NontrivialKeys, hex.EncodeToString([]byte(k)))
	}
	for _, s := range c.violOrder {
		r.Violations = append(r.Violations, c.viol[s])
	}
	b, _ := json.Marshal(r)
	if err := os.WriteFile(c.Out, b, 0o644); err != nil {
		fmt.Fprintln(os.Stderr, "cannot write shard result:", err)
		os.Exit(2)
	}
}

// MergeShard merges a shard result file into c (used by a parent process).
func (c *Ctx) MergeShard(path string) error {
	b, err := os.ReadFile(path)
	if err != nil {
		return err
	}
	var r shardResult
	if err := json.Unmarshal(b, &r); err != nil {
		return err
	}
	c.mu.Lock()
	defer c.mu.Unlock()
	c.states += r.States
	c.transitions += r.Transitions
	c.evaluations += r.Evaluations
	c.validated += r.Validated
	for k, v := range r.Outcomes {
		c.outcomes[k] += v
	}
	added := int64(0)
	for _, hk := range r.NontrivialKeys {
		kb, _ := hex.DecodeString(hk)
		if _, ok := c.nontrivial[string(kb)]; !ok {
			c.nontrivial[string(kb)] = struct{}{}
			added++
		}
	}
	// keys beyond the per-shard cap were only counted
	c.nontrivialN += added + (r.NontrivialN - int64(len(r.NontrivialKeys)))
	for _, s := range r.Samples {
		if len(c.samples) < 12 {
			c.samples = append(c.samples, s)
		}
	}
	for _, v := range r.Violations {
		if old, ok := c.viol[v.Signature]; ok {
			old.Count += v.Count
		} else {
			c.viol[v.Signature] = v
			c.violOrder = append(c.violOrder, v.Signature)
		}
	}
	for _, a := range r.Assumptions {
		dup := false
		for _, x := range c.assumptions {
			dup = dup || x == a
		}
		if !dup {
			c.assumptions = append(c.assumptions, a)
		}
	}
	for k, v := range r.Extra {
		if f, ok := v.(float64); ok {
			old, _ := c.extra[k].(int64)
			c.extra[k] = old + int64(f)
		} else {
			c.extra[k] = v
		}
	}
	if !r.Exhaustive {
		c.exhaustive = false
	}
	for _, x := range r.NotExhReason {
		dup := false
		for _, y := range c.notExhReason {
			dup = dup || x == y
		}
		if !dup {
			c.notExhReason = append(c.notExhReason, x)
		}
	}
	c.scenarios = append(c.scenarios, r.Scenarios...)
	c.engineErr = append(c.engineErr, r.EngineErr...)
	if c.rule == "" {
		c.rule = r.Rule
	}
	return nil
}

// Claim reports whether this worker should handle work item i: with a claim
// directory the first worker to create the item's file owns it (dynamic load
// balancing), otherwise items are dealt round-robin.
func (c *Ctx) Claim(i int) bool { return c.ClaimKey(fmt.Sprintf("item-%d", i), i) }

// ClaimKey is Claim for an arbitrary key; n is used for the round-robin fallback.
func (c *Ctx) ClaimKey(key string, n int) bool {
	if c.ClaimDir == "" {
		if n < 0 {
			n = -n
		}
		return c.Shards <= 1 || n%c.Shards == c.Shard
	}
	f, err := os.OpenFile(filepath.Join(c.ClaimDir, key), os.O_CREATE|os.O_EXCL|os.O_WRONLY, 0o644)
	if err != nil {
		return false
	}
	f.Close()
	return true
}

// IsShard reports whether this process is a shard worker.
func (c *Ctx) IsShard() bool { return c.Out != "" }

// SpawnShards re-executes the harness binary n times as shard workers
// (-shard i/n -out file), waits for them and merges their results. A worker
// that dies is an engine error (never a VIOLATION).
func (c *Ctx) SpawnShards(n int, extra ...string) {
	dir, err := os.MkdirTemp("", "verif-shards-")
	if err != nil {
		c.EngineError("mkdtemp: %v", err)
		return
	}
	defer os.RemoveAll(dir)
	type res struct {
		i   int
		err error
		log string
	}
	ch := make(chan res, n)
	remaining := time.Until(c.deadline)
	for i := 0; i < n; i++ {
		go func(i int) {
			out := filepath.Join(dir, fmt.Sprintf("shard%d.json", i))
			args := []string{"-tier", c.Tier, "-shard", fmt.Sprintf("%d/%d", i, n), "-out", out, "-budget", remaining.String(), "-claim", dir}
			args = append(args, extra...)
			cmd := exec.Command(os.Args[0], args...)
			var buf strings.Builder
			cmd.Stdout = &buf
			cmd.Stderr = &buf
			cmd.Env = append(os.Environ(), "GOMAXPROCS=1")
			err := cmd.Run()
			ch <- res{i, err, buf.String()}
		}(i)
	}
	for k := 0; k < n; k++ {
		r := <-ch
		out := filepath.Join(dir, fmt.Sprintf("shard%d.json", r.i))
		if r.err != nil {
			c.EngineError("shard %d failed: %v\n%s", r.i, r.err, tail(r.log, 60))
			continue
		}
		if err := c.MergeShard(out); err != nil {
			c.EngineError("shard %d: %v\n%s", r.i, err, tail(r.log, 30))
		}
	}
}

// RunPart runs another harness binary of the same property as a worker
// (-tier, -shard 0/1, -out file) and merges its result into c. Used by checks
// that consist of an engine-S part and an engine-Q part.
func (c *Ctx) RunPart(binary string, extra ...string) {
	if c.IsShard() || c.Replay != "" {
		return
	}
	out := filepath.Join(os.TempDir(), fmt.Sprintf("verif-part-%d-%s.json", os.Getpid(), filepath.Base(binary)))
	defer os.Remove(out)
	// the part runs under its own default wall-clock budget
	args := append([]string{"-tier", c.Tier, "-shard", "0/1", "-out", out}, extra...)
	cmd := exec.Command(binary, args...)
	if b, err := cmd.CombinedOutput(); err != nil {
		c.EngineError("part %s failed: %v\n%s", binary, err, tail(string(b), 40))
		return
	}
	if err := c.MergeShard(out); err != nil {
		c.EngineError("part %s: %v", binary, err)
	}
}

// ReplayPart hands a replay over to another harness binary of the same property if the
// replay file mentions marker; it reports whether it did.
func (c *Ctx) ReplayPart(marker, binary string) bool {
	if c.Replay == "" {
		return false
	}
	b, err := os.ReadFile(c.Replay)
	if err != nil || !strings.Contains(string(b), marker) {
		return false
	}
	cmd := exec.Command(binary, "-replay", c.Replay, "-tier", c.Tier)
	cmd.Stdout, cmd.Stderr = os.Stdout, os.Stderr
	if err := cmd.Run(); err != nil {
		if ee, ok := err.(*exec.ExitError); ok && ee.ExitCode() == 1 {
			c.Violate("replayed-by-part", marker, "see output above", "the replayed case still violates the property (details printed by the part)", nil)
		}
	}
	c.Add(1, 1, 1)
	return true
}

func tail(s string, n int) string {
	l := strings.Split(s, "\n")
	if len(l) > n {
		l = l[len(l)-n:]
	}
	return strings.Join(l, "\n")
}

// LoadFindings reads known_findings.json.
func LoadFindings() ([]Finding, error) {
	b, err := os.ReadFile(filepath.Join(Root, "known_findings.json"))
	if err != nil {
		if os.IsNotExist(err) {
			return nil, nil
		}
		return nil, err
	}
	var f struct {
		Findings []Finding `json:"findings"`
	}
	if err := json.Unmarshal(b, &f); err != nil {
		return nil, err
	}
	return f.Findings, nil
}

// Finish prints the result lines, writes evidence and replay files, and
// returns the exit code.
func (c *Ctx) Finish() int {
	findings, err := LoadFindings()
	if err != nil {
		fmt.Fprintln(os.Stderr, "ENGINE-ERROR: known_findings.json:", err)
		return 2
	}
	known := map[string]Finding{}
	for _, f := range findings {
		if f.Property == c.ID && f.Status == "known" {
			known[f.Signature] = f
		}
	}
	replDir := filepath.Join(Root, "evidence", "replays")
	_ = os.MkdirAll(replDir, 0o755)
	nViol, nKnown := 0, 0
	var knownSeen []string
	for _, sig := range c.violOrder {
		v := c.viol[sig]
		if f, ok := known[sig]; ok {
			nKnown++
			knownSeen = append(knownSeen, sig)
			fmt.Printf("KNOWN-FINDING: property=%s %s [%s] (seen %d times)\n", c.ID, f.What, sig, v.Count)
			continue
		}
		nViol++
		h := sha256.Sum256([]byte(sig))
		p := filepath.Join(replDir, fmt.Sprintf("%s-%s.json", c.ID, hex.EncodeToString(h[:6])))
		b, _ := json.MarshalIndent(v, "", " ")
		_ = os.WriteFile(p, b, 0o644)
		fmt.Printf("VIOLATION property=%s replay=%s\n", c.ID, p)
		fmt.Printf("  clause: %s\n  signature: %s\n  detail: %s\n", v.Clause, sig, firstLines(v.Detail, 12))
	}
	wall := time.Since(c.start).Seconds()
	if c.Replay == "" {
		c.writeEvidence(nViol, knownSeen, wall)
	}
	outs := make([]string, 0, len(c.outcomes))
	for k := range c.outcomes {
		outs = append(outs, k)
	}
	sort.Strings(outs)
	fmt.Printf("SUMMARY property=%s tier=%s states=%d transitions=%d evaluations=%d distinct_nontrivial=%d outcomes=%d exhaustive=%v violations=%d known=%d wall=%.1fs\n",
		c.ID, c.Tier, c.states, c.transitions, c.evaluations, c.nontrivialN, len(outs), c.exhaustive, nViol, nKnown, wall)
	for _, r := range c.notExhReason {
		fmt.Printf("  not exhaustive: %s\n", r)
	}
	if len(c.engineErr) > 0 {
		for _, e := range c.engineErr {
			fmt.Fprintf(os.Stderr, "ENGINE-ERROR: %s\n", e)
		}
		if nViol == 0 {
			return 2
		}
	}
	if nViol > 0 {
		return 1
	}
	return 0
}

func firstLines(s string, n int) string {
	l := strings.Split(s, "\n")
	if len(l) > n {
		l = append(l[:n], "...")
	}
	return strings.Join(l, "\n          ")
}

func (c *Ctx) writeEvidence(nViol int, knownSeen []string, wall float64) {
	cov := map[string]any{}
	for k, v := range c.extra {
		cov[k] = v
	}
	samples := c.samples
	if len(samples) == 0 {
		samples = []any{"(no sample recorded)"}
	}
	outs := map[string]int64{}
	n := 0
	for k, v := range c.outcomes {
		if n < 200 {
			outs[k] = v
		}
		n++
	}
	cov["states"] = c.states
	cov["transitions"] = c.transitions
	cov["evaluations"] = c.evaluations
	cov["traces_validated_against_impl"] = c.validated
	cov["distinct_nontrivial"] = c.nontrivialN
	cov["rule"] = c.rule
	cov["samples"] = samples
	cov["exhaustive"] = c.exhaustive
	cov["caps_hit"] = c.notExhReason
	cov["distinct_outcomes"] = len(c.outcomes)
	cov["outcomes"] = outs
	cov["scenarios"] = len(c.scenarios)
	if len(c.scenarios) <= 2000 {
		sort.Strings(c.scenarios)
		cov["scenario_list"] = c.scenarios
	}
	cov["known_findings_seen"] = knownSeen
	cov["engine_errors"] = c.engineErr
	ev := map[string]any{
		"property_id": c.ID, "tier": c.Tier, "seed": c.Seed, "level": c.Level, "coverage": cov,
		"assumptions": c.assumptions, "wall_s": wall, "violations": nViol,
	}
	b, _ := json.MarshalIndent(ev, "", " ")
	_ = os.MkdirAll(filepath.Join(Root, "evidence"), 0o755)
	if err := os.WriteFile(filepath.Join(Root, "evidence", c.ID+".json"), b, 0o644); err != nil {
		fmt.Fprintln(os.Stderr, "cannot write evidence:", err)
	}
}

// Catch runs f and returns the recovered panic (nil if none) and its stack.
func Catch(f func()) (p any, stack string) {
	defer func() {
		if r := recover(); r != nil {
			p = r
			if p == nil {
				p = "nil panic"
			}
			stack = string(debug.Stack())
		}
	}()
	f()
	return nil, ""
}

// PanicSite returns the innermost portbase function on a panic stack.
func PanicSite(stack string) string {
	lines := strings.Split(stack, "\n")
	for _, l := range lines {
		if strings.HasPrefix(l, "github.com/safing/portbase/") && !strings.Contains(l, "zzverif") && !strings.Contains(l, "Verif") {
			l = strings.TrimPrefix(l, "github.com/safing/portbase/")
			if i := strings.LastIndex(l, "("); i > 0 {
				l = l[:i]
			}
			return l
		}
	}
	return "unknown"
}

// ParallelFor runs f(i) for i in [0,n) on c.Workers goroutines.
func (c *Ctx) ParallelFor(n int, f func(i int)) {
	var wg sync.WaitGroup
	ch := make(chan int, 64)
	w := c.Workers
	if w < 1 {
		w = 1
	}
	for k := 0; k < w; k++ {
		wg.Add(1)
		go func() {
			defer wg.Done()
			for i := range ch {
				f(i)
			}
		}()
	}
	for i := 0; i < n; i++ {
		ch <- i
	}
	close(ch)
	wg.Wait()
}
