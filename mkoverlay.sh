#!/bin/bash
# usage: mkoverlay.sh <id> -> writes build/<id>.overlay.json mapping h/<id>/overlay/<rel> to /repo/<rel>
id="$1"
cd /verif || exit 2
python3 - "$id" <<'PY'
import os,sys,json
id=sys.argv[1]; base=f"/verif/h/{id}/overlay"; rep={}
for d,_,fs in os.walk(base):
    for f in fs:
        p=os.path.join(d,f); rel=os.path.relpath(p,base)
        rep["/repo/"+rel]=p
for d,_,fs in os.walk("/verif/shim"):
    for f in fs:
        if f.endswith(".go"):
            p=os.path.join(d,f); rel=os.path.relpath(p,"/verif/shim")
            rep["/repo/zzverif/"+rel]=p
extra=f"/verif/build/{id}.overlay.extra.json"
if os.path.exists(extra):
    rep.update(json.load(open(extra))["Replace"])
json.dump({"Replace":rep},open(f"/verif/build/{id}.overlay.json","w"),indent=1)
PY
