#!/usr/bin/env python3
"""Runs the registered quick check of the owning property against every seeded change under /verif/seeded/ and
records the verdict in the change's meta.json ("checks").

For each change: git -C /repo apply <patch>; ./check.sh <ID> --tier quick; git -C /repo checkout -- .
The evidence file of the property is restored afterwards (evidence must describe the unchanged tree).
usage: sweep_seeds.py [--tier quick|thorough] [ID or seed name ...]
"""
import json, os, re, shutil, subprocess, sys, glob, time

ENV = dict(os.environ, GOFLAGS="-mod=mod", GOPROXY="off", GOSUMDB="off", GOTOOLCHAIN="local")


def sh(cmd, cwd=None, timeout=3600):
    p = subprocess.run(cmd, shell=True, cwd=cwd, env=ENV, stdout=subprocess.PIPE, stderr=subprocess.STDOUT, text=True, timeout=timeout)
    return p.returncode, p.stdout


def main():
    args = sys.argv[1:]
    tier = "quick"
    if "--tier" in args:
        k = args.index("--tier")
        tier = args[k + 1]
        del args[k:k + 2]
    only = args
    rc, out = sh("git -C /repo status --porcelain")
    if out.strip():
        print("/repo is not clean:\n" + out)
        sys.exit(2)
    head = sh("git -C /repo rev-parse --short HEAD")[1].strip()
    for d in sorted(glob.glob("/verif/seeded/C*")):
        name = os.path.basename(d)
        pid = name.split("-")[0]
        if only and name not in only and pid not in only:
            continue
        mp = os.path.join(d, "meta.json")
        meta = json.load(open(mp))
        patch = os.path.join(d, "patch.diff")
        res = {"check": f"./check.sh {pid} --tier {tier}", "repo_head": head, "when": time.strftime("%Y-%m-%dT%H:%MZ", time.gmtime())}
        rc, out = sh(f"git -C /repo apply --check {patch}")
        if rc != 0:
            res["verdict"] = "not run: the change no longer applies to the repaired tree (the lines it edits were changed by a fix: commit)"
        else:
            sh(f"git -C /repo apply {patch}")
            ev = f"/verif/evidence/{pid}.json"
            bak = f"/dev/shm/ev_{pid}.bak"
            if os.path.exists(ev):
                shutil.copy(ev, bak)
            try:
                rc, out = sh(f"./check.sh {pid} --tier {tier}", cwd="/verif")
            finally:
                sh("git -C /repo checkout -- .")
                if os.path.exists(bak):
                    shutil.copy(bak, ev)
                    os.remove(bak)
            viol = re.findall(r"^VIOLATION property=(\S+)", out, re.M)
            sigs = sorted(set(re.findall(r"^\s*signature: (.*)$", out, re.M)))
            known = set(re.findall(r"^KNOWN-FINDING: property=\S+ (\S+)", out, re.M))
            summ = re.findall(r"^SUMMARY .*$", out, re.M)
            res["exit"] = rc
            res["violations"] = len(viol)
            res["signatures"] = [s for s in sigs if s not in known][:8]
            res["summary"] = summ[-1] if summ else ""
            if rc == 1 and viol:
                res["verdict"] = "caught"
            elif rc == 0:
                res["verdict"] = "missed"
            else:
                res["verdict"] = f"engine error (exit {rc})"
                res["tail"] = out[-800:]
        meta.setdefault("checks", {})
        if not isinstance(meta["checks"], dict):
            meta["checks"] = {}
        meta["checks"][f"{pid}:{tier}"] = res
        json.dump(meta, open(mp, "w"), indent=1)
        print(name, res["verdict"], "; ".join(res.get("signatures", [])[:3]), flush=True)
    rc, out = sh("git -C /repo status --porcelain")
    if out.strip():
        print("WARNING: /repo not clean after the sweep:\n" + out)


if __name__ == "__main__":
    main()
