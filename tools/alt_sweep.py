#!/usr/bin/env python3
"""Runs the owning quick check against the named seeded changes through tools/alt_seed.sh (isolated copies of /repo and
/verif, nothing outside the copies is touched) and records the verdict in seeded/<name>/meta.json.
usage: alt_sweep.py <name>[:<check id>] ...   |   alt_sweep.py --missing   (all seeds without a 'caught' verdict)"""
import json, os, re, subprocess, sys, glob, time

SKIP = {"C02-m2", "C07-m2", "C16-m2", "C03-m1", "C11-m1", "C18-m2", "C05-r4m3", "C06-r4m2", "C05-r5m3"}  # neutralised / superseded by fix: commits (DESIGN 9.6)


def verdict_of(meta, pid):
    ch = meta.get("checks") or {}
    return [v.get("verdict", "") for k, v in ch.items() if k.endswith(":quick")]


def main():
    names = [a for a in sys.argv[1:] if not a.startswith("--")]
    if "--missing" in sys.argv:
        for mp in sorted(glob.glob("/verif/seeded/*/meta.json")):
            name = mp.split("/")[-2]
            meta = json.load(open(mp))
            if name in SKIP:
                continue
            if "caught" not in verdict_of(meta, name.split("-")[0]):
                names.append(name)
    head = subprocess.check_output(["git", "-C", "/repo", "rev-parse", "--short", "HEAD"]).decode().strip()
    for name in names:
        pid = name.split("-")[0]
        if ":" in name:  # <seed>:<check id> runs another property's check against the seed
            name, pid = name.split(":")
        d = f"/verif/seeded/{name}"
        mp = d + "/meta.json"
        meta = json.load(open(mp))
        p = subprocess.run(["/verif/tools/alt_seed.sh", d + "/patch.diff", pid], stdout=subprocess.PIPE, stderr=subprocess.STDOUT, text=True)
        out = p.stdout
        sigs = sorted(set(re.findall(r"^\s*signature: (.*)$", out, re.M)))
        m = re.search(r"^exit=(\d+)", out, re.M)
        rc = int(m.group(1)) if m else None
        summ = re.findall(r"^SUMMARY .*$", out, re.M)
        if "PATCH DOES NOT APPLY" in out:
            verdict = "not run: the change no longer applies to the repaired tree"
        elif rc == 1 and sigs:
            verdict = "caught"
        elif rc == 0:
            verdict = "missed"
        else:
            verdict = f"engine error (exit {rc})"
        if not isinstance(meta.get("checks"), dict):
            meta["checks"] = {}
        meta["checks"][f"{pid}:quick"] = {"check": f"./check.sh {pid} --tier quick", "verdict": verdict, "exit": rc, "signatures": sigs[:8],
                                          "summary": summ[-1] if summ else "", "repo_head": head,
                                          "source": "tools/alt_sweep.py (isolated copy)", "when": time.strftime("%Y-%m-%dT%H:%MZ", time.gmtime())}
        json.dump(meta, open(mp, "w"), indent=1)
        print(name, verdict, "; ".join(sigs[:2])[:160], flush=True)


if __name__ == "__main__":
    main()
