#!/usr/bin/env python3
"""Records in seeded/<name>/meta.json ("checks") the verdict of the most recent run of the owning property's registered
quick check against each seeded change, taken from the run logs (each run: git -C /repo apply <patch>; ./check.sh <ID>
--tier quick; git -C /repo checkout -- .). Later logs override earlier ones. Verdicts written by tools/sweep_seeds.py
(complete sweeps) are kept unless a later log run exists."""
import json, os, re, sys, glob

# (log file, round prefix for entries of the form "== C08/m1"), in chronological order
LOGS = [
    ("/tmp/round2.log", "r2"), ("/tmp/round2b.log", "r2"), ("/tmp/round2c.log", None),
    ("/tmp/round3.log", "r3"), ("/tmp/round3b.log", "r3"), ("/tmp/round3c.log", "r3"),
    ("/tmp/c14seeds.log", None),
    ("/tmp/round4.log", "r4"), ("/tmp/round4b.log", "r4"), ("/tmp/round4c.log", "r4"), ("/tmp/round4d.log", "r4"),
    ("/tmp/round5.log", "r5"), ("/tmp/round5b.log", "r5"), ("/tmp/round5c.log", "r5"), ("/tmp/round5d.log", "r5"),
]


def name_of(header, rnd):
    h = header.strip()
    m = re.match(r"(?:/tmp/)?seed(\d?)/out/(C\d+)/(m\d)", h)
    if m:
        r = m.group(1)
        return f"{m.group(2)}-{m.group(3)}" if r == "" else f"{m.group(2)}-r{r}{m.group(3)}"
    m = re.match(r"(C\d+)/(m\d)", h)
    if m and rnd:
        return f"{m.group(1)}-{rnd}{m.group(2)}"
    return None


def main():
    results = {}
    for path, rnd in LOGS:
        if not os.path.exists(path):
            continue
        cur = None
        for line in open(path, errors="replace"):
            if line.startswith("== "):
                cur = name_of(line[3:].split(" (")[0], rnd)
                if cur:
                    results[cur] = {"log": os.path.basename(path), "signatures": [], "exit": None, "summary": "", "check": None}
                continue
            if not cur:
                continue
            r = results[cur]
            m = re.match(r"\s*signature: (.*)", line)
            if m:
                r["signatures"].append(m.group(1).strip()[:200])
            m = re.match(r"exit=(\d+)", line)
            if m:
                r["exit"] = int(m.group(1))
            if line.startswith("SUMMARY"):
                r["summary"] = line.strip()
                mm = re.search(r"property=(C\d+)", line)
                if mm:
                    r["check"] = mm.group(1)
            if line.startswith("PATCH DOES NOT APPLY"):
                r["exit"] = -1
    n = 0
    for name, r in sorted(results.items()):
        mp = f"/verif/seeded/{name}/meta.json"
        if not os.path.exists(mp) or r["exit"] is None:
            continue
        meta = json.load(open(mp))
        pid = r["check"] or name.split("-")[0]
        if r["exit"] == 1 and r["signatures"]:
            verdict = "caught"
        elif r["exit"] == 0:
            verdict = "missed"
        elif r["exit"] == -1:
            verdict = "not run: the change no longer applies to the repaired tree"
        else:
            verdict = f"engine error (exit {r['exit']})"
        if not isinstance(meta.get("checks"), dict):
            meta["checks"] = {}
        prev = meta["checks"].get(f"{pid}:quick") or {}
        if "when" in prev or (prev.get("verdict") == "caught" and verdict != "caught"):
            continue  # a later complete sweep (tools/sweep_seeds.py, tools/alt_sweep.py) has judged this change
        meta["checks"][f"{pid}:quick"] = {"check": f"./check.sh {pid} --tier quick", "verdict": verdict, "exit": r["exit"],
                                          "signatures": r["signatures"][:8], "summary": r["summary"], "source": "run log " + r["log"]}
        json.dump(meta, open(mp, "w"), indent=1)
        n += 1
    print("verdicts written:", n)
    # overview
    tot = {"caught": 0, "missed": 0, "other": 0, "none": 0}
    missed = []
    for mp in sorted(glob.glob("/verif/seeded/*/meta.json")):
        meta = json.load(open(mp))
        name = mp.split("/")[-2]
        pid = name.split("-")[0]
        ch = meta.get("checks") or {}
        vs = [v.get("verdict", "") for k, v in ch.items() if k.endswith(":quick")]
        own = (ch.get(f"{pid}:quick") or {}).get("verdict")
        if own is None and not vs:
            tot["none"] += 1
        elif "caught" in vs:
            tot["caught"] += 1
        elif own == "missed":
            tot["missed"] += 1
            missed.append(name)
        else:
            tot["other"] += 1
    print(tot)
    print("missed:", " ".join(missed))


if __name__ == "__main__":
    main()
