#!/bin/bash
# validates MANIFEST.json and all evidence files against the schemas
python3-vt - <<'PY'
import json,jsonschema,glob,sys
ms=json.load(open('/root/.vp/MANIFEST.schema.json')); es=json.load(open('/root/.vp/EVIDENCE.schema.json'))
m=json.load(open('/verif/MANIFEST.json')); jsonschema.validate(m,ms)
ids=[c['property_id'] for c in m['checks']]; na=[x['property_id'] for x in m.get('not_applicable',[])]
allp=[json.loads(l)['id'] for l in open('/verif/properties.jsonl')]
assert sorted(ids+na)==sorted(allp),(sorted(ids+na),allp)
bad=0
for c in m['checks']:
    try:
        e=json.load(open(c['evidence_file'])); jsonschema.validate(e,es); assert e['property_id']==c['property_id']
    except Exception as ex:
        bad+=1; print('EVIDENCE PROBLEM',c['property_id'],str(ex)[:200])
print('manifest ok; checks=%d not_applicable=%d evidence_problems=%d'%(len(ids),len(na),bad))
PY
