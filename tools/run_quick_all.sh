#!/bin/bash
# runs the quick tier of every registered check on /repo's current tree, one after the other
export GOFLAGS=-mod=mod GOPROXY=off GOSUMDB=off GOTOOLCHAIN=local
cd /verif
for id in $(jq -r '.checks[].property_id' MANIFEST.json); do
  s=$(date +%s)
  ./check.sh $id --tier quick > /tmp/quick_$id.out 2>&1; rc=$?
  echo "$id exit=$rc $(( $(date +%s)-s ))s $(grep -E '^SUMMARY' /tmp/quick_$id.out | tail -1 | cut -c1-230)"
  grep -E '^(VIOLATION|ENGINE-ERROR)' /tmp/quick_$id.out | head -5
done
echo ALLDONE
