#!/bin/bash
# runs the thorough tier of every registered check sequentially, keeps the committed (quick) evidence untouched
cd /verif
mkdir -p /tmp/thorough
for id in $(python3 -c "import json;print(' '.join(c['property_id'] for c in json.load(open('/verif/MANIFEST.json'))['checks']))"); do
  [ -n "${1:-}" ] && [[ " $* " != *" $id "* ]] && continue
  cp evidence/$id.json /tmp/thorough/$id.quick.json 2>/dev/null
  s=$(date +%s)
  ./check.sh $id --tier thorough > /tmp/thorough/$id.out 2>&1; rc=$?
  e=$(date +%s)
  cp evidence/$id.json /tmp/thorough/$id.thorough.json 2>/dev/null
  cp /tmp/thorough/$id.quick.json evidence/$id.json 2>/dev/null
  echo "$id rc=$rc wall=$((e-s))s $(grep '^SUMMARY' /tmp/thorough/$id.out | cut -c1-220)" >> /tmp/thorough/summary.txt
done
echo ALLDONE >> /tmp/thorough/summary.txt
