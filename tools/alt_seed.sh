#!/bin/bash
# usage: alt_seed.sh <patch.diff|-> <ID> [tier]     ('-' = unchanged tree)
# Runs a check against a seeded change WITHOUT touching /repo or /verif: private copies of both trees are bind-mounted
# over /repo and /verif in a private mount namespace (so the hard-wired paths keep working), the patch is applied to
# the copy and the check runs there. Needs root (unshare -m). The copies live under /tmp/alt.<ID> and are removed afterwards.
patch="$1"; ID="$2"; tier="${3:-quick}"
A=/tmp/alt.$ID.$$
mkdir -p $A/repo $A/verif
rsync -a --delete /repo/ $A/repo/
rsync -a --delete --exclude build/ --exclude evidence/replays/ --exclude .git/ /verif/ $A/verif/
mkdir -p $A/verif/build $A/verif/evidence/replays
export GOFLAGS=-mod=mod GOPROXY=off GOSUMDB=off GOTOOLCHAIN=local
unshare -m bash -c "
  mount --bind $A/repo /repo && mount --bind $A/verif /verif || exit 9
  cd /repo && git checkout -q -- . && { [ '$patch' = '-' ] || git apply '$patch'; } || { echo 'PATCH DOES NOT APPLY'; exit 3; }
  cd /verif && nice -n 5 ./check.sh $ID --tier $tier > $A/out.txt 2>&1
  echo \"exit=\$?\" >> $A/out.txt
"
grep -E '^(VIOLATION|SUMMARY|ENGINE|PATCH)' $A/out.txt | head -8
grep -E 'signature' $A/out.txt | sort -u | head -6
grep -E '^exit=' $A/out.txt
[ -n "$KEEP_ALT" ] && cp $A/out.txt /tmp/alt_last_out.txt; rm -rf $A
