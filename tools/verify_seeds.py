#!/usr/bin/env python3
"""Confirms seeded changes in a scratch worktree of /repo (never in /repo itself) and files them under /verif/seeded/.

For every /tmp/seed/out/<ID>/<mN>/ with a patch: in a scratch worktree at /repo HEAD
  1. apply the patch (patch_rebased.diff if present, else patch.diff),
  2. go build ./... and go vet-free compile of the tests,
  3. run the repository's test-suite (packages that depend on the touched packages; flaky/always-failing tests known from BASELINE.json are ignored),
  4. run the demonstration with the patch (must FAIL) and without it (must PASS).
Results go to /verif/seeded/<ID>-<mN>/{patch.diff, demo files, meta.json}.
"""
import json, os, re, shutil, subprocess, sys, glob

ENV = dict(os.environ, GOFLAGS="-mod=mod", GOPROXY="off", GOSUMDB="off", GOTOOLCHAIN="local")
IGNORED = {"TestMicroTaskWaiting", "TestMicroTaskOrdering", "TestCallLimiter", "TestOnceAgain", "TestQueuedTask", "TestScheduledTaskWaiting", "TestRequeueingTask", "TestQueueSuccession"}
WT = "/tmp/seedverify_wt"


def sh(cmd, cwd=None, timeout=1500):
    p = subprocess.run(cmd, shell=True, cwd=cwd, env=ENV, stdout=subprocess.PIPE, stderr=subprocess.STDOUT, text=True, timeout=timeout)
    return p.returncode, p.stdout


def fresh_worktree():
    sh(f"git -C /repo worktree remove --force {WT}")
    shutil.rmtree(WT, ignore_errors=True)
    rc, out = sh(f"git -C /repo worktree add --detach {WT} HEAD")
    assert rc == 0, out


def touched_packages(patch):
    pk = set()
    for l in open(patch):
        m = re.match(r"\+\+\+ b/(.*)", l)
        if m:
            pk.add(os.path.dirname(m.group(1)))
    return sorted(pk)


def failing_tests(out):
    bad = set(re.findall(r"^--- FAIL: (\S+)", out, re.M))
    return sorted(t for t in bad if t.split("/")[0] not in IGNORED)


def demo_info(d):
    run = ""
    p = os.path.join(d, "RUN.md")
    if os.path.exists(p):
        run = open(p).read().replace("`", " ")
    files = [f for f in glob.glob(os.path.join(d, "*_test.go"))]
    dest = None
    m = re.search(r"cp\s+\S*_test\.go\s+(\S+)", run)
    if m:
        dest = m.group(1)
        dest = re.sub(r"^/tmp/seed\d*/C\d+/", "", dest)
        dest = re.sub(r"^<[a-z ]+>/", "", dest)
    mm = re.search(r"mkdir -p (\S+)", run)
    rm = re.search(r"go test[^\n]*?-run\s+'?\"?([^'\"\s]+)", run)
    pkgm = re.search(r"go test[^\n]*?(\./\S+)\s*$", run, re.M)
    return files, dest, (mm.group(1) if mm else None), (rm.group(1) if rm else None), (pkgm.group(1) if pkgm else None)


def main():
    only = [a for a in sys.argv[1:] if not a.startswith("--")]
    os.makedirs("/verif/seeded", exist_ok=True)
    for d in sorted(glob.glob("/tmp/seed/out/C*/m[0-9]")) + sorted(glob.glob("/tmp/seed2/out/C*/m[0-9]")) + sorted(glob.glob("/tmp/seed3/out/C*/m[0-9]")) + sorted(glob.glob("/tmp/seed4/out/C*/m[0-9]")) + sorted(glob.glob("/tmp/seed5/out/C*/m[0-9]")) + sorted(glob.glob("/tmp/seed6/out/C*/m[0-9]")) + sorted(glob.glob("/tmp/seed7/out/C*/m[0-9]")) + sorted(glob.glob("/tmp/seed8/out/C*/m[0-9]")):
        pid, mn = d.split("/")[-2], d.split("/")[-1]
        name = f"{pid}-{mn}" if d.startswith("/tmp/seed/") else (f"{pid}-r2{mn}" if d.startswith("/tmp/seed2/") else (f"{pid}-r3{mn}" if d.startswith("/tmp/seed3/") else (f"{pid}-r4{mn}" if d.startswith("/tmp/seed4/") else (f"{pid}-r5{mn}" if d.startswith("/tmp/seed5/") else (f"{pid}-r6{mn}" if d.startswith("/tmp/seed6/") else (f"{pid}-r7{mn}" if d.startswith("/tmp/seed7/") else f"{pid}-r8{mn}"))))))
        if only and name not in only and pid not in only:
            continue
        try:
            if json.load(open(f"/verif/seeded/{name}/meta.json"))["confirmation"]["status"] == "confirmed" and "--force" not in sys.argv:
                continue
        except Exception:
            pass
        patch = os.path.join(d, "patch_rebased.diff")
        rebased = os.path.exists(patch)
        if not rebased:
            patch = os.path.join(d, "patch.diff")
        if not os.path.exists(patch):
            continue
        res = {"id": name, "property": pid, "patch": os.path.basename(patch), "rebased_on_fixed_tree": rebased}
        fresh_worktree()
        rc, out = sh(f"git apply {patch}", cwd=WT)
        if rc != 0:
            res["status"] = "patch does not apply on the current tree (superseded by a fix)"
            res["kept"] = False
            write(name, d, patch, res)
            continue
        pkgs = touched_packages(patch)
        rc, out = sh("go build ./... && go test -vet=off -count=1 -run '^$' ./... > /dev/null", cwd=WT)
        res["builds"] = rc == 0
        # suite: everything (the baseline command), ignoring the known flaky tests
        rc, out = sh("go test -vet=off -count=1 ./... 2>&1", cwd=WT)
        ft = failing_tests(out)
        res["suite_failing_tests_with_patch"] = ft
        res["suite_passes"] = not ft and "[build failed]" not in out
        # demo
        files, dest, mk, runre, pkg = demo_info(d)
        demo = {"files": [os.path.basename(f) for f in files]}
        mains = glob.glob(os.path.join(d, "main.go"))
        if not files and mains:
            # stand-alone program: go run in a scratch package of the worktree, exit code 0 = good behaviour
            demo["files"] = ["main.go"]
            def runmain():
                os.makedirs(os.path.join(WT, "zzseeddemo"), exist_ok=True)
                shutil.copy(mains[0], os.path.join(WT, "zzseeddemo", "main.go"))
                r = sh("go run ./zzseeddemo", cwd=WT, timeout=900)
                shutil.rmtree(os.path.join(WT, "zzseeddemo"), ignore_errors=True)
                return r
            demo["cmd"] = "go run ./zzseeddemo (main.go copied there)"
            rc1, out1 = runmain()
            demo["fails_with_patch"] = rc1 != 0
            sh(f"git apply -R {patch}", cwd=WT)
            rc2, out2 = runmain()
            demo["passes_without_patch"] = rc2 == 0
            demo["tail_with_patch"] = out1[-600:]
        if files:
            def place(wt):
                if mk:
                    os.makedirs(os.path.join(wt, mk), exist_ok=True)
                for f in files:
                    if dest and len(files) == 1:
                        t = os.path.join(wt, dest)
                        if os.path.isdir(t) or dest.endswith("/"):
                            t = os.path.join(t, os.path.basename(f))
                    elif mk:
                        t = os.path.join(wt, mk, os.path.basename(f))
                    elif pkg and not pkg.endswith("..."):
                        t = os.path.join(wt, pkg.lstrip("./"), os.path.basename(f))
                    else:
                        t = os.path.join(wt, pkgs[0], os.path.basename(f))
                    os.makedirs(os.path.dirname(t), exist_ok=True)
                    shutil.copy(f, t)
                    yield os.path.relpath(os.path.dirname(t), wt)
            pk = sorted(set(place(WT)))
            target = pkg or ("./" + pk[0] + "/")
            cmd = f"go test -vet=off -count=1 {('-run ' + repr(runre)) if runre else ''} {target}"
            demo["cmd"] = cmd
            rc1, out1 = sh(cmd, cwd=WT, timeout=900)
            demo["fails_with_patch"] = rc1 != 0
            sh(f"git apply -R {patch}", cwd=WT)
            rc2, out2 = sh(cmd, cwd=WT, timeout=900)
            demo["passes_without_patch"] = rc2 == 0
            demo["tail_with_patch"] = out1[-600:]
            if rc2 != 0:
                demo["tail_without_patch"] = out2[-600:]
        res["demo"] = demo
        res["kept"] = bool(res["builds"] and res["suite_passes"] and demo.get("fails_with_patch") and demo.get("passes_without_patch"))
        res["status"] = "confirmed" if res["kept"] else "not confirmed"
        write(name, d, patch, res)
    sh(f"git -C /repo worktree remove --force {WT}")
    shutil.rmtree(WT, ignore_errors=True)


def write(name, d, patch, res):
    out = f"/verif/seeded/{name}"
    os.makedirs(out, exist_ok=True)
    shutil.copy(patch, os.path.join(out, "patch.diff"))
    for f in glob.glob(os.path.join(d, "*_test.go")) + glob.glob(os.path.join(d, "RUN.md")) + glob.glob(os.path.join(d, "main.go")):
        shutil.copy(f, out)
    meta = {}
    mp = os.path.join(d, "meta.json")
    if os.path.exists(mp):
        try:
            meta = json.load(open(mp))
        except Exception:
            meta = {"raw": open(mp).read()[:2000]}
    old = {}
    if os.path.exists(os.path.join(out, "meta.json")):
        try:
            old = json.load(open(os.path.join(out, "meta.json")))
        except Exception:
            pass
    m = {"property": res["property"], "breaks": meta.get("summary", ""), "needs": meta.get("needs", ""), "author": "independent sub-agent (saw only the property text)",
         "confirmation": res, "checks": old.get("checks", {})}
    json.dump(m, open(os.path.join(out, "meta.json"), "w"), indent=1)
    print(name, res.get("status"), res.get("suite_failing_tests_with_patch"), (res.get("demo") or {}).get("fails_with_patch"), (res.get("demo") or {}).get("passes_without_patch"), flush=True)


if __name__ == "__main__":
    main()
