// instr rewrites portbase packages so that every operation that can order two
// goroutines goes through the vsched shims (engine S), and generates per-package
// reset code. Output: rewritten files + an overlay.json for `go build -overlay`.
//
// usage: instr -out DIR [-full pkg,pkg] [-clock pkg,pkg] [-harness DIR] [-shim DIR] [-base overlay.json]
package main

import (
	"bytes"
	"encoding/json"
	"flag"
	"fmt"
	"go/ast"
	"go/format"
	"go/token"
	"go/types"
	"os"
	"path/filepath"
	"sort"
	"strconv"
	"strings"

	"golang.org/x/tools/go/ast/astutil"
	"golang.org/x/tools/go/packages"
)

const (
	repo      = "/repo"
	modPath   = "github.com/safing/portbase"
	shimBase  = modPath + "/zzverif/"
	vschedPkg = shimBase + "vsched"
)

var importMap = map[string][2]string{ // original import path -> (shim path, default name)
	"sync":                    {shimBase + "vsync", "sync"},
	"sync/atomic":             {shimBase + "vatomic", "atomic"},
	"time":                    {shimBase + "vtime", "time"},
	"github.com/tevino/abool": {shimBase + "vabool", "abool"},
}

// identifiers the shims provide (anything else referenced from these packages fails the build, by design)
var warnings []string

func die(format string, a ...any) {
	fmt.Fprintf(os.Stderr, "instr: "+format+"\n", a...)
	os.Exit(2)
}

func main() {
	out := flag.String("out", "", "output directory")
	full := flag.String("full", "", "packages (relative to the module) to instrument fully")
	clock := flag.String("clock", "", "packages to instrument in clock mode (time import only)")
	sealed := flag.String("sealed", "", "packages to instrument fully but sealed: their operations are switch points only when they block")
	harness := flag.String("harness", "", "directory with files to add to /repo packages (tree mirrors /repo)")
	shim := flag.String("shim", "/verif/shim", "shim source directory")
	noTests := flag.Bool("droptests", true, "remove the packages' own _test.go files from the build")
	flag.Parse()
	if *out == "" {
		die("-out required")
	}
	if abs, err := filepath.Abs(*out); err == nil {
		*out = abs
	}
	overlay := map[string]string{}
	// shim packages become virtual packages of the portbase module
	_ = filepath.Walk(*shim, func(p string, fi os.FileInfo, err error) error {
		if err == nil && !fi.IsDir() && strings.HasSuffix(p, ".go") {
			rel, _ := filepath.Rel(*shim, p)
			overlay[filepath.Join(repo, "zzverif", rel)] = p
		}
		return nil
	})
	// harness files
	extra := map[string][]string{} // pkg dir (abs in /repo) -> harness files (abs in /verif)
	pkgOverlay := map[string][]byte{}
	if *harness != "" {
		_ = filepath.Walk(*harness, func(p string, fi os.FileInfo, err error) error {
			if err == nil && !fi.IsDir() && strings.HasSuffix(p, ".go") {
				rel, _ := filepath.Rel(*harness, p)
				dst := filepath.Join(repo, rel)
				overlay[dst] = p
				extra[filepath.Dir(dst)] = append(extra[filepath.Dir(dst)], dst)
				b, _ := os.ReadFile(p)
				pkgOverlay[dst] = b
			}
			return nil
		})
	}
	for dst, src := range overlay { // shim files must be visible to the type checker too
		if _, ok := pkgOverlay[dst]; !ok {
			b, err := os.ReadFile(src)
			if err != nil {
				die("%v", err)
			}
			pkgOverlay[dst] = b
		}
	}
	mode := map[string]string{}
	var patterns []string
	for _, p := range splitList(*full) {
		mode[modPath+"/"+p] = "full"
		patterns = append(patterns, "./"+p)
		// stub so that harness files can refer to the generated VerifReset during type checking
		pkgOverlay[filepath.Join(repo, p, "zz_verif_reset.go")] = []byte("//go:build verif\n\npackage " + pkgNameOf(filepath.Join(repo, p)) + "\n\nfunc VerifReset() {}\n")
	}
	for _, p := range splitList(*sealed) {
		if mode[modPath+"/"+p] == "" {
			mode[modPath+"/"+p] = "sealed"
			patterns = append(patterns, "./"+p)
			pkgOverlay[filepath.Join(repo, p, "zz_verif_reset.go")] = []byte("//go:build verif\n\npackage " + pkgNameOf(filepath.Join(repo, p)) + "\n\nfunc VerifReset() {}\n")
		}
	}
	for _, p := range splitList(*clock) {
		if mode[modPath+"/"+p] == "" {
			mode[modPath+"/"+p] = "clock"
			patterns = append(patterns, "./"+p)
		}
	}
	if len(patterns) > 0 {
		cfg := &packages.Config{
			Mode:       packages.NeedName | packages.NeedFiles | packages.NeedCompiledGoFiles | packages.NeedSyntax | packages.NeedTypes | packages.NeedTypesInfo | packages.NeedImports | packages.NeedDeps,
			Dir:        repo,
			BuildFlags: []string{"-tags=verif"},
			Overlay:    pkgOverlay,
			Env:        append(os.Environ(), "GOFLAGS=-mod=mod", "GOPROXY=off", "GOSUMDB=off", "GOTOOLCHAIN=local"),
		}
		pkgs, err := packages.Load(cfg, patterns...)
		if err != nil {
			die("load: %v", err)
		}
		bad := false
		for _, p := range pkgs {
			for _, e := range p.Errors {
				fmt.Fprintf(os.Stderr, "instr: %s: %v\n", p.PkgPath, e)
				bad = true
			}
		}
		if bad {
			os.Exit(2)
		}
		for _, p := range pkgs {
			m := mode[p.PkgPath]
			if m == "" {
				continue
			}
			rel := strings.TrimPrefix(strings.TrimPrefix(p.PkgPath, modPath), "/")
			outDir := filepath.Join(*out, rel)
			if err := os.MkdirAll(outDir, 0o755); err != nil {
				die("%v", err)
			}
			ip := &instrPkg{pkg: p, mode: m, outDir: outDir, overlay: overlay}
			if m == "sealed" {
				ip.mode, ip.sealed = "full", true
			}
			ip.run()
			if *noTests {
				ents, _ := os.ReadDir(filepath.Join(repo, rel))
				for _, e := range ents {
					if strings.HasSuffix(e.Name(), "_test.go") {
						overlay[filepath.Join(repo, rel, e.Name())] = ""
					}
				}
			}
		}
	}
	b, _ := json.MarshalIndent(map[string]any{"Replace": overlay}, "", " ")
	if err := os.WriteFile(filepath.Join(*out, "overlay.json"), b, 0o644); err != nil {
		die("%v", err)
	}
	for _, w := range warnings {
		fmt.Fprintln(os.Stderr, "instr: warning:", w)
	}
}

// pkgNameOf reads the package clause of the first non-test Go file of dir.
func pkgNameOf(dir string) string {
	ents, _ := os.ReadDir(dir)
	for _, e := range ents {
		if strings.HasSuffix(e.Name(), ".go") && !strings.HasSuffix(e.Name(), "_test.go") {
			b, _ := os.ReadFile(filepath.Join(dir, e.Name()))
			for _, l := range strings.Split(string(b), "\n") {
				if strings.HasPrefix(l, "package ") {
					return strings.Fields(l)[1]
				}
			}
		}
	}
	return filepath.Base(dir)
}

func splitList(s string) []string {
	var out []string
	for _, x := range strings.Split(s, ",") {
		if x = strings.TrimSpace(x); x != "" {
			out = append(out, x)
		}
	}
	return out
}

type instrPkg struct {
	pkg     *packages.Package
	mode    string
	outDir  string
	overlay map[string]string
	tmpN    int
	sealed  bool

	initFuncs []string                   // renamed init functions, in file order
	varInits  map[*ast.ValueSpec]string  // spec -> generated init function name (per Rhs)
	rhsFunc   map[ast.Expr]string        // initializer Rhs -> function name
}

func (ip *instrPkg) tmp(prefix string) string {
	ip.tmpN++
	return fmt.Sprintf("_vs%d%s", ip.tmpN, prefix)
}

func isHarnessFile(name string) bool { return strings.HasPrefix(filepath.Base(name), "zz_verif") }

func (ip *instrPkg) run() {
	p := ip.pkg
	ip.rhsFunc = map[ast.Expr]string{}
	// deterministic file order
	type fileInfo struct {
		f    *ast.File
		name string
	}
	var files []fileInfo
	for i, f := range p.Syntax {
		if filepath.Base(p.CompiledGoFiles[i]) == "zz_verif_reset.go" {
			continue // type-checking stub, replaced by the generated file
		}
		files = append(files, fileInfo{f, p.CompiledGoFiles[i]})
	}
	sort.Slice(files, func(i, j int) bool { return files[i].name < files[j].name })

	// initializer functions (for reset), attached to the file declaring the first Lhs
	fileOfPos := func(pos token.Pos) *ast.File {
		tf := p.Fset.File(pos)
		for _, fi := range files {
			if tf != nil && p.Fset.File(fi.f.Package) == tf {
				return fi.f
			}
		}
		return nil
	}
	appendDecl := map[*ast.File][]string{}
	var resetCalls []string
	var zeroVars []string
	if ip.mode == "full" {
		// all package-level vars (for zeroing)
		for _, fi := range files {
			if isHarnessFile(fi.name) {
				continue
			}
			for _, d := range fi.f.Decls {
				gd, ok := d.(*ast.GenDecl)
				if !ok || gd.Tok != token.VAR {
					continue
				}
				for _, sp := range gd.Specs {
					vs := sp.(*ast.ValueSpec)
					for _, n := range vs.Names {
						if n.Name != "_" {
							zeroVars = append(zeroVars, n.Name)
						}
					}
				}
			}
		}
	}

	for _, fi := range files {
		ip.rewriteFile(fi.f, fi.name)
	}

	if ip.mode == "full" {
		k := 0
		for _, in := range p.TypesInfo.InitOrder {
			f := fileOfPos(in.Lhs[0].Pos())
			if f == nil {
				continue
			}
			fname := p.Fset.Position(f.Pos()).Filename
			if isHarnessFile(fname) {
				continue
			}
			var lhs []string
			allBlank := true
			for _, v := range in.Lhs {
				lhs = append(lhs, v.Name())
				if v.Name() != "_" {
					allBlank = false
				}
			}
			if allBlank {
				continue
			}
			var buf bytes.Buffer
			if err := format.Node(&buf, p.Fset, in.Rhs); err != nil {
				die("print initializer: %v", err)
			}
			fn := fmt.Sprintf("verifInitVar%d", k)
			k++
			appendDecl[f] = append(appendDecl[f], fmt.Sprintf("func %s() { %s = %s }\n", fn, strings.Join(lhs, ", "), buf.String()))
			resetCalls = append(resetCalls, fn+"()")
		}
	}

	// print files
	for _, fi := range files {
		var buf bytes.Buffer
		if err := format.Node(&buf, p.Fset, fi.f); err != nil {
			die("print %s: %v", fi.name, err)
		}
		for _, d := range appendDecl[fi.f] {
			buf.WriteString("\n" + d)
		}
		base := filepath.Base(fi.name)
		dst := filepath.Join(ip.outDir, base)
		src := buf.Bytes()
		if formatted, err := format.Source(src); err == nil {
			src = formatted
		} else {
			_ = os.WriteFile(dst+".broken", src, 0o644)
			die("generated %s does not parse: %v", dst, err)
		}
		if err := os.WriteFile(dst, src, 0o644); err != nil {
			die("%v", err)
		}
		orig := fi.name
		if o, ok := ip.overlay[orig]; ok && o != "" && strings.HasPrefix(o, "/verif/") {
			// harness file: the overlay target stays the /repo path, source becomes the rewritten copy
		}
		ip.overlay[orig] = dst
	}

	if ip.mode == "full" {
		var sb strings.Builder
		sb.WriteString("//go:build verif\n\npackage " + p.Name + "\n\nimport vsched \"" + vschedPkg + "\"\n\n")
		sb.WriteString("var _ = vsched.Active\n\n")
		sb.WriteString("// VerifReset brings every package-level variable back to its initial value and re-runs the init functions.\nfunc VerifReset() {\n")
		sort.Strings(zeroVars)
		for _, v := range zeroVars {
			sb.WriteString("\tvsched.Zero(&" + v + ")\n")
		}
		for _, c := range resetCalls {
			sb.WriteString("\t" + c + "\n")
		}
		for _, c := range ip.initFuncs {
			sb.WriteString("\t" + c + "(true)\n")
		}
		sb.WriteString("}\n")
		dst := filepath.Join(ip.outDir, "zz_verif_reset.go")
		if err := os.WriteFile(dst, []byte(sb.String()), 0o644); err != nil {
			die("%v", err)
		}
		rel := strings.TrimPrefix(strings.TrimPrefix(p.PkgPath, modPath), "/")
		ip.overlay[filepath.Join(repo, rel, "zz_verif_reset.go")] = dst
	}
}

// ---------- per-file rewriting ----------

func (ip *instrPkg) rewriteFile(f *ast.File, name string) {
	info := ip.pkg.TypesInfo
	fset := ip.pkg.Fset
	// 1. imports
	needVsched := false
	for _, im := range f.Imports {
		path, _ := strconv.Unquote(im.Path.Value)
		m, ok := importMap[path]
		if !ok {
			continue
		}
		if ip.mode == "clock" && path != "time" {
			continue
		}
		if im.Name == nil {
			im.Name = ast.NewIdent(m[1])
		}
		im.Path.Value = strconv.Quote(m[0])
	}
	if ip.mode != "full" {
		return
	}
	vs := func(fn string) ast.Expr {
		needVsched = true
		return &ast.SelectorExpr{X: ast.NewIdent("vsched"), Sel: ast.NewIdent(fn)}
	}
	call := func(fn string, args ...ast.Expr) *ast.CallExpr {
		return &ast.CallExpr{Fun: vs(fn), Args: args}
	}
	site := func(n ast.Node) ast.Expr {
		pos := fset.Position(n.Pos())
		return &ast.BasicLit{Kind: token.STRING, Value: strconv.Quote(fmt.Sprintf("%s:%d", filepath.Base(pos.Filename), pos.Line))}
	}

	// pre-pass: classify nodes using type info (before anything is replaced)
	selectComm := map[ast.Node]bool{} // comm statements/expressions owned by a select (not rewritten by the generic rules)
	rangeKind := map[*ast.RangeStmt]string{}
	recv2 := map[*ast.UnaryExpr]bool{}
	constArg := map[ast.Expr]bool{}
	builtinClose := map[*ast.CallExpr]bool{}
	ast.Inspect(f, func(n ast.Node) bool {
		switch x := n.(type) {
		case *ast.SelectStmt:
			for _, c := range x.Body.List {
				cc := c.(*ast.CommClause)
				switch cm := cc.Comm.(type) {
				case *ast.SendStmt:
					selectComm[cm] = true
				case *ast.ExprStmt:
					selectComm[unparen(cm.X)] = true
				case *ast.AssignStmt:
					selectComm[unparen(cm.Rhs[0])] = true
				}
			}
		case *ast.RangeStmt:
			if t := info.TypeOf(x.X); t != nil {
				switch u := t.Underlying().(type) {
				case *types.Chan:
					rangeKind[x] = "chan"
				case *types.Map:
					if b, ok := u.Key().Underlying().(*types.Basic); ok && b.Info()&(types.IsOrdered) != 0 {
						rangeKind[x] = "map"
					} else {
						warnings = append(warnings, fmt.Sprintf("%s: range over map with unordered key type %s left as is", fset.Position(x.Pos()), u.Key()))
					}
				}
			}
		case *ast.AssignStmt:
			if len(x.Lhs) == 2 && len(x.Rhs) == 1 {
				if u, ok := unparen(x.Rhs[0]).(*ast.UnaryExpr); ok && u.Op == token.ARROW {
					recv2[u] = true
				}
			}
		case *ast.ValueSpec:
			if len(x.Names) == 2 && len(x.Values) == 1 {
				if u, ok := unparen(x.Values[0]).(*ast.UnaryExpr); ok && u.Op == token.ARROW {
					recv2[u] = true
				}
			}
		case *ast.GoStmt:
			for _, a := range x.Call.Args {
				if tv, ok := info.Types[a]; ok && tv.Value != nil {
					constArg[a] = true
				}
			}
		case *ast.CallExpr:
			if id, ok := x.Fun.(*ast.Ident); ok && id.Name == "close" {
				if _, isB := info.Uses[id].(*types.Builtin); isB {
					builtinClose[x] = true
				}
			}
		}
		return true
	})

	// init functions -> renamed (reset re-runs them)
	if !isHarnessFile(name) {
		var add []ast.Decl
		for _, d := range f.Decls {
			fd, ok := d.(*ast.FuncDecl)
			if !ok || fd.Recv != nil || fd.Name.Name != "init" {
				continue
			}
			newName := fmt.Sprintf("verifInit_%s_%d", sanitize(filepath.Base(name)), len(ip.initFuncs))
			fd.Name = ast.NewIdent(newName)
			// the function gets a parameter: statements that register command line flags cannot run twice
			fd.Type.Params = &ast.FieldList{List: []*ast.Field{{Names: []*ast.Ident{ast.NewIdent("verifRerun")}, Type: ast.NewIdent("bool")}}}
			for i, st := range fd.Body.List {
				var buf bytes.Buffer
				_ = format.Node(&buf, fset, st)
				if strings.Contains(buf.String(), "flag.") {
					fd.Body.List[i] = &ast.IfStmt{Cond: &ast.UnaryExpr{Op: token.NOT, X: ast.NewIdent("verifRerun")}, Body: &ast.BlockStmt{List: []ast.Stmt{st}}}
				}
			}
			add = append(add, &ast.FuncDecl{Name: ast.NewIdent("init"), Type: &ast.FuncType{Params: &ast.FieldList{}},
				Body: &ast.BlockStmt{List: []ast.Stmt{&ast.ExprStmt{X: &ast.CallExpr{Fun: ast.NewIdent(newName), Args: []ast.Expr{ast.NewIdent("false")}}}}}})
			ip.initFuncs = append(ip.initFuncs, newName)
		}
		f.Decls = append(f.Decls, add...)
	}

	post := func(c *astutil.Cursor) bool {
		switch x := c.Node().(type) {
		case *ast.GoStmt:
			c.Replace(ip.rewriteGo(x, constArg, vs, site(x)))
		case *ast.SendStmt:
			if selectComm[x] {
				return true
			}
			c.Replace(&ast.ExprStmt{X: call("Send", x.Chan, x.Value)})
		case *ast.UnaryExpr:
			if x.Op != token.ARROW || selectComm[x] {
				return true
			}
			if recv2[x] {
				c.Replace(call("Recv2", x.X))
			} else {
				c.Replace(call("Recv", x.X))
			}
		case *ast.CallExpr:
			if builtinClose[x] {
				x.Fun = vs("Close")
			}
		case *ast.RangeStmt:
			switch rangeKind[x] {
			case "chan":
				c.Replace(ip.rewriteChanRange(x, call))
			case "map":
				c.Replace(ip.rewriteMapRange(x, call))
			}
		case *ast.SelectStmt:
			c.Replace(ip.rewriteSelect(x, call))
		case *ast.FuncDecl:
			if ip.sealed && x.Body != nil && !isHarnessFile(name) {
				x.Body.List = append(sealStmts(vs), x.Body.List...)
			}
		case *ast.FuncLit:
			if ip.sealed && !isHarnessFile(name) {
				x.Body.List = append(sealStmts(vs), x.Body.List...)
			}
		}
		return true
	}
	astutil.Apply(f, nil, post)
	if needVsched {
		have := false
		for _, im := range f.Imports {
			if path, _ := strconv.Unquote(im.Path.Value); path == vschedPkg {
				have = true
			}
		}
		if !have {
			astutil.AddNamedImport(fset, f, "vsched", vschedPkg)
		}
	}
}

func sealStmts(vs func(string) ast.Expr) []ast.Stmt {
	return []ast.Stmt{
		&ast.ExprStmt{X: &ast.CallExpr{Fun: vs("SealEnter")}},
		&ast.DeferStmt{Call: &ast.CallExpr{Fun: vs("SealLeave")}},
	}
}

func sanitize(s string) string {
	var sb strings.Builder
	for _, r := range s {
		if (r >= 'a' && r <= 'z') || (r >= 'A' && r <= 'Z') || (r >= '0' && r <= '9') {
			sb.WriteRune(r)
		} else {
			sb.WriteRune('_')
		}
	}
	return sb.String()
}

func unparen(e ast.Expr) ast.Expr {
	for {
		p, ok := e.(*ast.ParenExpr)
		if !ok {
			return e
		}
		e = p.X
	}
}

func (ip *instrPkg) rewriteGo(g *ast.GoStmt, constArg map[ast.Expr]bool, vs func(string) ast.Expr, site ast.Expr) ast.Stmt {
	callExpr := g.Call
	if fl, ok := callExpr.Fun.(*ast.FuncLit); ok && len(callExpr.Args) == 0 {
		return &ast.ExprStmt{X: &ast.CallExpr{Fun: vs("Go"), Args: []ast.Expr{site, fl}}}
	}
	var stmts []ast.Stmt
	fn := ast.NewIdent(ip.tmp("f"))
	stmts = append(stmts, &ast.AssignStmt{Lhs: []ast.Expr{fn}, Tok: token.DEFINE, Rhs: []ast.Expr{callExpr.Fun}})
	var args []ast.Expr
	for _, a := range callExpr.Args {
		if constArg[a] {
			args = append(args, a)
			continue
		}
		t := ast.NewIdent(ip.tmp("a"))
		stmts = append(stmts, &ast.AssignStmt{Lhs: []ast.Expr{t}, Tok: token.DEFINE, Rhs: []ast.Expr{a}})
		args = append(args, t)
	}
	inner := &ast.CallExpr{Fun: fn, Args: args, Ellipsis: callExpr.Ellipsis}
	lit := &ast.FuncLit{Type: &ast.FuncType{Params: &ast.FieldList{}}, Body: &ast.BlockStmt{List: []ast.Stmt{&ast.ExprStmt{X: inner}}}}
	stmts = append(stmts, &ast.ExprStmt{X: &ast.CallExpr{Fun: vs("Go"), Args: []ast.Expr{site, lit}}})
	return &ast.BlockStmt{List: stmts}
}

func (ip *instrPkg) rewriteChanRange(r *ast.RangeStmt, call func(string, ...ast.Expr) *ast.CallExpr) ast.Stmt {
	ch := ast.NewIdent(ip.tmp("ch"))
	ok := ast.NewIdent(ip.tmp("ok"))
	var recvStmt ast.Stmt
	if r.Key == nil {
		recvStmt = &ast.AssignStmt{Lhs: []ast.Expr{ast.NewIdent("_"), ok}, Tok: token.DEFINE, Rhs: []ast.Expr{call("Recv2", ch)}}
	} else if r.Tok == token.DEFINE {
		recvStmt = &ast.AssignStmt{Lhs: []ast.Expr{r.Key, ok}, Tok: token.DEFINE, Rhs: []ast.Expr{call("Recv2", ch)}}
	} else {
		tmpv := ast.NewIdent(ip.tmp("v"))
		recvStmt = &ast.BlockStmt{List: []ast.Stmt{
			&ast.AssignStmt{Lhs: []ast.Expr{tmpv, ok}, Tok: token.DEFINE, Rhs: []ast.Expr{call("Recv2", ch)}},
		}}
		_ = tmpv
		die("range over channel with '=' not supported")
	}
	body := []ast.Stmt{recvStmt, &ast.IfStmt{Cond: &ast.UnaryExpr{Op: token.NOT, X: ok}, Body: &ast.BlockStmt{List: []ast.Stmt{&ast.BranchStmt{Tok: token.BREAK}}}},
		&ast.BlockStmt{List: r.Body.List}}
	return &ast.BlockStmt{List: []ast.Stmt{
		&ast.AssignStmt{Lhs: []ast.Expr{ch}, Tok: token.DEFINE, Rhs: []ast.Expr{r.X}},
		&ast.ForStmt{Body: &ast.BlockStmt{List: body}},
	}}
}

func (ip *instrPkg) rewriteMapRange(r *ast.RangeStmt, call func(string, ...ast.Expr) *ast.CallExpr) ast.Stmt {
	// NOTE: a `break`/`continue` label directly on the range statement keeps working because the
	// replacement is again a range statement; the map expression is hoisted in front of it only
	// when it is not a plain identifier/selector (no side effects to preserve otherwise).
	m := r.X
	var pre []ast.Stmt
	switch unparen(m).(type) {
	case *ast.Ident, *ast.SelectorExpr:
	default:
		mi := ast.NewIdent(ip.tmp("m"))
		pre = append(pre, &ast.AssignStmt{Lhs: []ast.Expr{mi}, Tok: token.DEFINE, Rhs: []ast.Expr{m}})
		m = mi
	}
	if r.Tok == token.ASSIGN {
		die("range over map with '=' not supported")
	}
	key := r.Key
	if key == nil || isBlank(key) {
		key = ast.NewIdent(ip.tmp("k"))
	}
	ok := ast.NewIdent(ip.tmp("ok"))
	var val ast.Expr = ast.NewIdent("_")
	if r.Value != nil && !isBlank(r.Value) {
		val = r.Value
	}
	body := ([]ast.Stmt{
		&ast.AssignStmt{Lhs: []ast.Expr{val, ok}, Tok: token.DEFINE, Rhs: []ast.Expr{&ast.IndexExpr{X: m, Index: key}}},
		&ast.IfStmt{Cond: &ast.UnaryExpr{Op: token.NOT, X: ok}, Body: &ast.BlockStmt{List: []ast.Stmt{&ast.BranchStmt{Tok: token.CONTINUE}}}},
		// the original body keeps its own scope (it may redeclare the loop variables)
		&ast.BlockStmt{List: r.Body.List},
	})
	nr := &ast.RangeStmt{Key: ast.NewIdent("_"), Value: key, Tok: token.DEFINE, X: call("Keys", m), Body: &ast.BlockStmt{List: body}}
	if len(pre) == 0 {
		return nr
	}
	return &ast.BlockStmt{List: append(pre, nr)}
}

func isBlank(e ast.Expr) bool {
	id, ok := e.(*ast.Ident)
	return ok && id.Name == "_"
}

func (ip *instrPkg) rewriteSelect(s *ast.SelectStmt, call func(string, ...ast.Expr) *ast.CallExpr) ast.Stmt {
	var caseVars []ast.Expr
	var caseInits []ast.Expr
	var clauses []ast.Stmt
	hasDefault := false
	idx := 0
	for _, c := range s.Body.List {
		cc := c.(*ast.CommClause)
		if cc.Comm == nil {
			hasDefault = true
			clauses = append(clauses, &ast.CaseClause{List: nil, Body: cc.Body})
			continue
		}
		kv := ast.NewIdent(ip.tmp("k"))
		caseVars = append(caseVars, kv)
		var bodyPre []ast.Stmt
		switch cm := cc.Comm.(type) {
		case *ast.SendStmt:
			caseInits = append(caseInits, call("SendCase", cm.Chan, cm.Value))
		case *ast.ExprStmt:
			u := unparen(cm.X).(*ast.UnaryExpr)
			caseInits = append(caseInits, call("RecvCase", u.X))
		case *ast.AssignStmt:
			u := unparen(cm.Rhs[0]).(*ast.UnaryExpr)
			caseInits = append(caseInits, call("RecvCase", u.X))
			rhs := []ast.Expr{&ast.CallExpr{Fun: &ast.SelectorExpr{X: kv, Sel: ast.NewIdent("Val")}}}
			if len(cm.Lhs) == 2 {
				rhs = append(rhs, &ast.CallExpr{Fun: &ast.SelectorExpr{X: kv, Sel: ast.NewIdent("Ok")}})
			}
			allBlank := true
			for _, l := range cm.Lhs {
				if !isBlank(l) {
					allBlank = false
				}
			}
			if !allBlank {
				bodyPre = append(bodyPre, &ast.AssignStmt{Lhs: cm.Lhs, Tok: cm.Tok, Rhs: rhs})
			}
		}
		clauses = append(clauses, &ast.CaseClause{List: []ast.Expr{&ast.BasicLit{Kind: token.INT, Value: strconv.Itoa(idx)}}, Body: append(bodyPre, cc.Body...)})
		idx++
	}
	def := ast.NewIdent("false")
	if hasDefault {
		def = ast.NewIdent("true")
	} else {
		// keeps the statement terminating like the select it replaces; never reached
		clauses = append(clauses, &ast.CaseClause{List: nil, Body: []ast.Stmt{&ast.ExprStmt{X: &ast.CallExpr{Fun: ast.NewIdent("panic"),
			Args: []ast.Expr{&ast.BasicLit{Kind: token.STRING, Value: strconv.Quote("vsched: select without default returned no case")}}}}}})
	}
	args := append([]ast.Expr{def}, caseVars...)
	sw := &ast.SwitchStmt{Tag: call("Select", args...), Body: &ast.BlockStmt{List: clauses}}
	if len(caseVars) > 0 {
		sw.Init = &ast.AssignStmt{Lhs: caseVars, Tok: token.DEFINE, Rhs: caseInits}
	}
	return sw
}
