#!/bin/bash
# usage: check.sh <ID> [--tier quick|thorough] [--replay path] [extra harness flags]
# Rebuilds the property's harness from /repo's current working tree and runs it.
# exit 0 = held, 1 = VIOLATION line(s) printed, 2 = engine error
set -u
export GOFLAGS=-mod=mod GOPROXY=off GOSUMDB=off GOTOOLCHAIN=local GOMAXPROCS=${GOMAXPROCS:-16}
cd /verif || exit 2
ID="$1"; shift
id=$(echo "$ID" | tr 'A-Z' 'a-z')
mkdir -p build evidence
if [ -x "h/$id/build.sh" ]; then
  "h/$id/build.sh" "build/$id" > "build/$id.buildlog" 2>&1 || { cat "build/$id.buildlog"; echo "ENGINE-ERROR: build of harness $ID failed" >&2; exit 2; }
else
  go build -o "build/$id" "./h/$id" > "build/$id.buildlog" 2>&1 || { cat "build/$id.buildlog"; echo "ENGINE-ERROR: build of harness $ID failed" >&2; exit 2; }
fi
exec "build/$id" "$@"
