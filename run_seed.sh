#!/bin/bash
# usage: run_seed.sh <patch.diff> <ID> [tier]  — applies a seeded change to /repo, runs the check, reverts.
patch="$1"; ID="$2"; tier="${3:-quick}"
cd /repo || exit 2
if ! git diff --quiet; then echo "/repo not clean"; exit 2; fi
git apply "$patch" || { echo "PATCH DOES NOT APPLY"; exit 3; }
cd /verif
cp evidence/$ID.json /tmp/ev_$ID.bak 2>/dev/null
./check.sh "$ID" --tier "$tier" > /tmp/seedrun_$ID.out 2>&1; rc=$?
cp /tmp/ev_$ID.bak evidence/$ID.json 2>/dev/null
git -C /repo checkout -- .
grep -E '^(VIOLATION|KNOWN|SUMMARY|ENGINE)' /tmp/seedrun_$ID.out | head -8
grep -E 'signature' /tmp/seedrun_$ID.out | head -5
echo "exit=$rc"
