// Package slib drives engine-S harnesses: it shards scenarios over worker
// processes, explores each with the preemption-bounded explorer and feeds
// results into vlib (evidence, violations, replay).
package slib

import (
	"fmt"
	"os"
	"sort"
	"strings"
	"time"

	"github.com/safing/portbase/zzverif/vsched"

	"verif/vlib"
)

// Scn is a scenario plus the metadata needed for reporting.
type Scn struct {
	*vsched.Scenario
	Family string // scenario family (part of the finding signature)
	Bound  int    // deviation bound for this scenario (quick/thorough decided by the harness)
}

// Witness is the replay artefact of a schedule violation.
type Witness struct {
	Scenario string   `json:"scenario"`
	Choices  []int    `json:"choices"`
	HighFirst bool    `json:"high_first"`
	MapDesc  bool     `json:"map_desc"`
	Cost     int      `json:"deviations"`
	Trace    []string `json:"trace"`
}

// Opts configures Run.
type Opts struct {
	Shards     int
	SelectCost int
	// SigScenario controls whether the scenario family is part of the signature site (default true).
	PerScenarioBudget time.Duration
}

// Run explores all scenarios (sharded over processes) and reports into c.
func Run(c *vlib.Ctx, scns []*Scn, o Opts) {
	if o.Shards == 0 {
		o.Shards = 16
	}
	if only := os.Getenv("VERIF_ONLY"); only != "" {
		var keep []*Scn
		for _, s := range scns {
			if strings.Contains(s.Name, only) {
				keep = append(keep, s)
			}
		}
		scns = keep
		c.NotExhaustive("VERIF_ONLY filter active")
	}
	if b := os.Getenv("VERIF_BOUND"); b != "" {
		for _, s := range scns {
			fmt.Sscanf(b, "%d", &s.Bound)
		}
	}
	if os.Getenv("VERIF_PB") != "" {
		for _, s := range scns {
			s.PreemptionBounding = true
		}
	}
	byName := map[string]*Scn{}
	for _, s := range scns {
		if byName[s.Name] != nil {
			c.EngineError("duplicate scenario name %s", s.Name)
			return
		}
		byName[s.Name] = s
	}
	if c.Replay != "" {
		var w Witness
		if _, err := c.LoadReplay(&w); err != nil {
			c.EngineError("replay: %v", err)
			return
		}
		s := byName[w.Scenario]
		if s == nil {
			c.EngineError("replay: unknown scenario %q", w.Scenario)
			return
		}
		silence()
		vsched.RecordLabels(true)
		r := vsched.RunOnce(s.Scenario, w.Choices, o.SelectCost)
		restore()
		fmt.Printf("replay of %s choices=%v\n", w.Scenario, w.Choices)
		for i, d := range r.Decisions {
			fmt.Printf("  decision %d: took %d of %d (cost %d) among: %s\n", i, d.Chosen, d.N, d.Cost, d.Label)
		}
		for _, e := range vsched.EventNames(r) {
			fmt.Println("  event:", e)
		}
		if r.Deadlock {
			fmt.Println("  DEADLOCK; blocked:", r.Blocked)
		}
		if r.Panic != "" {
			fmt.Println("  UNCONTAINED PANIC in", r.PanicThread, ":", firstLine(r.Panic))
		}
		if r.Diverged != "" {
			c.EngineError("replay diverged: %s", r.Diverged)
		}
		if s.Check != nil {
			for _, is := range s.Check(r) {
				c.Violate(is.Clause, s.Family, is.Disc, is.Detail, w)
			}
		}
		c.Add(int64(len(r.Decisions)), int64(r.Steps), 1)
		return
	}
	if !c.IsShard() || (c.Shards == 1 && c.ClaimDir == "" && os.Getenv("VERIF_SINGLE") == "") {
		// top level, or running as a part of another harness (-shard 0/1 -out file): fan out to worker processes
		c.SpawnShards(o.Shards)
		return
	}
	silence()
	defer restore()
	vsched.DumpAllTraces = os.Getenv("VERIF_DUMPTRACES") != ""
	// scenario-level sharding through a shared claim directory (dynamic load balancing)
	for i := range scns {
		i := i
		s := scns[i]
		mine := c.ClaimKey(fmt.Sprintf("scn-%d-owner", i), i) // the owner reports the scenario line
		if c.Expired() {
			c.NotExhaustive(fmt.Sprintf("scenario %s not explored (budget)", s.Name))
			continue
		}
		deadline := time.Time{}
		if o.PerScenarioBudget > 0 {
			deadline = time.Now().Add(o.PerScenarioBudget)
		}
		st, found, err := vsched.ExploreScenario(s.Scenario, vsched.Options{Bound: s.Bound, SelectCost: o.SelectCost, Deadline: deadline,
			Claim: func(chunk int) bool { return c.ClaimKey(fmt.Sprintf("scn-%d-chunk-%d", i, chunk+1), i+chunk+1) }})
		if err != nil {
			c.EngineError("%v", err)
			continue
		}
		if mine {
			c.Scenario(fmt.Sprintf("%s bound=%d", s.Name, s.Bound))
		}
		c.ExtraAdd("executions/"+s.Family, st.Executions)
		c.Add(st.Decisions, st.Points, st.Executions)
		keys := make([]string, 0, len(st.Traces))
		for k := range st.Traces {
			keys = append(keys, k)
		}
		sort.Strings(keys)
		for _, k := range keys {
			c.Nontrivial(s.Name + "/" + k)
		}
		c.OutcomeN(s.Family+":executions", st.Executions)
		if st.Deadlocks > 0 {
			c.OutcomeN(s.Family+":deadlocked-executions", st.Deadlocks)
		}
		if st.StepLimits > 0 {
			c.OutcomeN(s.Family+":step-limit-executions", st.StepLimits)
			c.NotExhaustive(fmt.Sprintf("scenario %s: %d executions hit the step limit (horizon)", s.Name, st.StepLimits))
		}
		if !st.Complete {
			c.NotExhaustive(fmt.Sprintf("scenario %s: bound %d not completed: %s", s.Name, s.Bound, st.Truncated))
		}
		for _, sm := range st.Sample {
			if i < 4*c.Shards {
				c.Sample(map[string]any{"scenario": s.Name, "execution": sm})
			}
			if os.Getenv("VERIF_DUMPTRACES") != "" {
				fmt.Fprintf(savedErr, "TRACE %s %s\n", s.Name, sm)
				continue
			}
			break
		}
		for _, f := range found {
			if f.Clause == "harness" {
				c.EngineError("harness self-check failed in %s: %s (%s)", f.Scenario, f.Detail, f.Disc)
				continue
			}
			c.Violate(f.Clause, s.Family, f.Disc, fmt.Sprintf("scenario %s, %d deviations, choices %v\n%s\ntrace: %s", f.Scenario, f.Cost, f.Choices, f.Detail, strings.Join(f.Trace, "; ")),
				Witness{Scenario: f.Scenario, Choices: f.Choices, HighFirst: s.HighFirst, MapDesc: f.MapDesc, Cost: f.Cost, Trace: f.Trace})
		}
	}
}

func firstLine(s string) string {
	if i := strings.Index(s, "\n"); i > 0 {
		return s[:i]
	}
	return s
}

var savedOut, savedErr *os.File

// silence redirects os.Stdout/os.Stderr (portbase prints log frames and error reports there).
func silence() {
	if savedOut != nil {
		return
	}
	dn, err := os.OpenFile(os.DevNull, os.O_WRONLY, 0)
	if err != nil {
		return
	}
	savedOut, savedErr = os.Stdout, os.Stderr
	os.Stdout = dn
	if os.Getenv("VERIF_KEEP_STDERR") == "" {
		os.Stderr = dn
	}
}

func restore() {
	if savedOut != nil {
		os.Stdout, os.Stderr = savedOut, savedErr
		savedOut = nil
	}
}
