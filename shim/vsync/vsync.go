//go:build verif

// Package vsync mirrors the parts of package sync that portbase uses. While an
// execution is active the primitives are modelled (so that blocking is
// visible to the scheduler); otherwise they delegate to the real ones.
// Acquire-like operations (Lock, RLock, Wait, Once.Do) are scheduling points;
// release-like operations (Unlock, RUnlock, Done, Add) are not: they are left
// movers and only enable other threads, which are considered at the caller's
// next point.
package vsync

import (
	"sync"

	"github.com/safing/portbase/zzverif/vsched"
)

type (
	// Locker mirrors sync.Locker.
	Locker = sync.Locker
	// Pool is the real sync.Pool.
	Pool = sync.Pool
	// Map is the real sync.Map.
	Map = sync.Map
)

// Mutex mirrors sync.Mutex.
type Mutex struct {
	mu   sync.Mutex
	held bool
	run  uint64
}

func (m *Mutex) isHeld() bool { return m.held && m.run == vsched.RunID() }

func (m *Mutex) Lock() {
	if !vsched.Active() {
		m.mu.Lock()
		return
	}
	if vsched.Teardown() {
		return
	}
	vsched.Yield(&vsched.Op{Kind: "lock", Obj: m, Label: "mutex", Enabled: func() bool { return !m.isHeld() }})
	if vsched.Aborting() {
		return
	}
	m.held, m.run = true, vsched.RunID()
}

func (m *Mutex) TryLock() bool {
	if !vsched.Active() {
		return m.mu.TryLock()
	}
	if vsched.Teardown() {
		return false
	}
	vsched.Yield(&vsched.Op{Kind: "trylock", Obj: m, Label: "mutex", Enabled: func() bool { return true }})
	if vsched.Aborting() || m.isHeld() {
		return false
	}
	m.held, m.run = true, vsched.RunID()
	return true
}

func (m *Mutex) Unlock() {
	if !vsched.Active() {
		m.mu.Unlock()
		return
	}
	if vsched.Teardown() {
		return
	}
	if !m.isHeld() {
		panic("sync: unlock of unlocked mutex")
	}
	m.held = false
}

// RWMutex mirrors sync.RWMutex (modelled without writer preference).
type RWMutex struct {
	mu      sync.RWMutex
	writer  bool
	readers int
	run     uint64
}

func (m *RWMutex) fresh() {
	if m.run != vsched.RunID() {
		m.writer, m.readers, m.run = false, 0, vsched.RunID()
	}
}

func (m *RWMutex) Lock() {
	if !vsched.Active() {
		m.mu.Lock()
		return
	}
	if vsched.Teardown() {
		return
	}
	vsched.Yield(&vsched.Op{Kind: "lock", Obj: m, Label: "rwmutex", Enabled: func() bool { m.fresh(); return !m.writer && m.readers == 0 }})
	if vsched.Aborting() {
		return
	}
	m.fresh()
	m.writer = true
}

func (m *RWMutex) Unlock() {
	if !vsched.Active() {
		m.mu.Unlock()
		return
	}
	if vsched.Teardown() {
		return
	}
	m.fresh()
	if !m.writer {
		panic("sync: Unlock of unlocked RWMutex")
	}
	m.writer = false
}

func (m *RWMutex) RLock() {
	if !vsched.Active() {
		m.mu.RLock()
		return
	}
	if vsched.Teardown() {
		return
	}
	vsched.Yield(&vsched.Op{Kind: "rlock", Obj: m, Label: "rwmutex", Enabled: func() bool { m.fresh(); return !m.writer }})
	if vsched.Aborting() {
		return
	}
	m.fresh()
	m.readers++
}

func (m *RWMutex) RUnlock() {
	if !vsched.Active() {
		m.mu.RUnlock()
		return
	}
	if vsched.Teardown() {
		return
	}
	m.fresh()
	if m.readers <= 0 {
		panic("sync: RUnlock of unlocked RWMutex")
	}
	m.readers--
}

// TryLock mirrors (*sync.RWMutex).TryLock.
func (m *RWMutex) TryLock() bool {
	if !vsched.Active() {
		return m.mu.TryLock()
	}
	if vsched.Teardown() {
		return false
	}
	vsched.Yield(&vsched.Op{Kind: "trylock", Obj: m, Label: "rwmutex", Enabled: func() bool { return true }})
	if vsched.Aborting() {
		return false
	}
	m.fresh()
	if m.writer || m.readers > 0 {
		return false
	}
	m.writer = true
	return true
}

// TryRLock mirrors (*sync.RWMutex).TryRLock.
func (m *RWMutex) TryRLock() bool {
	if !vsched.Active() {
		return m.mu.TryRLock()
	}
	if vsched.Teardown() {
		return false
	}
	vsched.Yield(&vsched.Op{Kind: "tryrlock", Obj: m, Label: "rwmutex", Enabled: func() bool { return true }})
	if vsched.Aborting() {
		return false
	}
	m.fresh()
	if m.writer {
		return false
	}
	m.readers++
	return true
}

// RLocker mirrors (*sync.RWMutex).RLocker.
func (m *RWMutex) RLocker() Locker { return (*rlocker)(m) }

type rlocker RWMutex

func (r *rlocker) Lock()   { (*RWMutex)(r).RLock() }
func (r *rlocker) Unlock() { (*RWMutex)(r).RUnlock() }

// WaitGroup mirrors sync.WaitGroup.
type WaitGroup struct {
	wg  sync.WaitGroup
	n   int
	run uint64
}

func (w *WaitGroup) fresh() {
	if w.run != vsched.RunID() {
		w.n, w.run = 0, vsched.RunID()
	}
}

func (w *WaitGroup) Add(d int) {
	if !vsched.Active() {
		w.wg.Add(d)
		return
	}
	if vsched.Teardown() {
		return
	}
	w.fresh()
	w.n += d
	if w.n < 0 {
		panic("sync: negative WaitGroup counter")
	}
}

func (w *WaitGroup) Done() { w.Add(-1) }

func (w *WaitGroup) Wait() {
	if !vsched.Active() {
		w.wg.Wait()
		return
	}
	if vsched.Teardown() {
		return
	}
	vsched.Yield(&vsched.Op{Kind: "wgwait", Obj: w, Label: "waitgroup", Enabled: func() bool { w.fresh(); return w.n == 0 }})
}

// Once mirrors sync.Once.
type Once struct {
	once  sync.Once
	state int // 0 new, 1 running, 2 done
	run   uint64
}

func (o *Once) Do(f func()) {
	if !vsched.Active() {
		o.once.Do(f)
		return
	}
	if vsched.Teardown() {
		return
	}
	if o.run != vsched.RunID() {
		o.state, o.run = 0, vsched.RunID()
	}
	vsched.Yield(&vsched.Op{Kind: "once", Obj: o, Label: "once", Enabled: func() bool { return o.state != 1 }})
	if vsched.Aborting() || o.state == 2 {
		return
	}
	o.state = 1
	defer func() { o.state = 2 }()
	f()
}
