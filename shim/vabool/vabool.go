//go:build verif

// Package vabool is an API-identical copy of github.com/tevino/abool with a
// scheduling point before every operation.
package vabool

import (
	"encoding/json"
	"sync/atomic"

	"github.com/safing/portbase/zzverif/vsched"
)

// AtomicBool is an atomic boolean.
type AtomicBool int32

func New() *AtomicBool { return new(AtomicBool) }

func NewBool(ok bool) *AtomicBool {
	ab := New()
	if ok {
		atomic.StoreInt32((*int32)(ab), 1)
	}
	return ab
}

func (ab *AtomicBool) point(kind string) {
	if vsched.Active() {
		if vsched.Teardown() {
			return
		}
		vsched.Yield(&vsched.Op{Kind: "abool", Obj: ab, Label: kind, Enabled: func() bool { return true }})
	}
}

func (ab *AtomicBool) Set()           { ab.point("set"); atomic.StoreInt32((*int32)(ab), 1) }
func (ab *AtomicBool) UnSet()         { ab.point("unset"); atomic.StoreInt32((*int32)(ab), 0) }
func (ab *AtomicBool) IsSet() bool    { ab.point("isset"); return atomic.LoadInt32((*int32)(ab))&1 == 1 }
func (ab *AtomicBool) IsNotSet() bool { return !ab.IsSet() }
func (ab *AtomicBool) SetTo(yes bool) {
	if yes {
		ab.Set()
	} else {
		ab.UnSet()
	}
}
func (ab *AtomicBool) Toggle() bool {
	ab.point("toggle")
	return atomic.AddInt32((*int32)(ab), 1)&1 == 0
}
func (ab *AtomicBool) SetToIf(old, new bool) (set bool) {
	ab.point("settoif")
	var o, n int32
	if old {
		o = 1
	}
	if new {
		n = 1
	}
	return atomic.CompareAndSwapInt32((*int32)(ab), o, n)
}
func (ab *AtomicBool) MarshalJSON() ([]byte, error) { return json.Marshal(ab.IsSet()) }
func (ab *AtomicBool) UnmarshalJSON(b []byte) error {
	var v bool
	err := json.Unmarshal(b, &v)
	if err == nil {
		ab.SetTo(v)
	}
	return err
}
