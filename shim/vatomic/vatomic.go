//go:build verif

// Package vatomic mirrors the parts of sync/atomic that portbase uses, with a
// scheduling point before every operation.
package vatomic

import (
	"sync/atomic"

	"github.com/safing/portbase/zzverif/vsched"
)

func point(kind string, p interface{}) {
	if vsched.Active() {
		if vsched.Teardown() {
			return
		}
		vsched.Yield(&vsched.Op{Kind: "atomic", Obj: p, Label: kind, Enabled: func() bool { return true }})
	}
}

func AddInt32(p *int32, d int32) int32      { point("add", p); return atomic.AddInt32(p, d) }
func LoadInt32(p *int32) int32              { point("load", p); return atomic.LoadInt32(p) }
func StoreInt32(p *int32, v int32)          { point("store", p); atomic.StoreInt32(p, v) }
func AddUint32(p *uint32, d uint32) uint32  { point("add", p); return atomic.AddUint32(p, d) }
func LoadUint32(p *uint32) uint32           { point("load", p); return atomic.LoadUint32(p) }
func StoreUint32(p *uint32, v uint32)       { point("store", p); atomic.StoreUint32(p, v) }
func AddUint64(p *uint64, d uint64) uint64  { point("add", p); return atomic.AddUint64(p, d) }
func LoadUint64(p *uint64) uint64           { point("load", p); return atomic.LoadUint64(p) }
func StoreUint64(p *uint64, v uint64)       { point("store", p); atomic.StoreUint64(p, v) }
func AddInt64(p *int64, d int64) int64      { point("add", p); return atomic.AddInt64(p, d) }
func LoadInt64(p *int64) int64              { point("load", p); return atomic.LoadInt64(p) }
func StoreInt64(p *int64, v int64)          { point("store", p); atomic.StoreInt64(p, v) }
func CompareAndSwapUint32(p *uint32, o, n uint32) bool {
	point("cas", p)
	return atomic.CompareAndSwapUint32(p, o, n)
}
func CompareAndSwapInt32(p *int32, o, n int32) bool {
	point("cas", p)
	return atomic.CompareAndSwapInt32(p, o, n)
}

// Int32 mirrors atomic.Int32.
type Int32 struct{ v int32 }

func (x *Int32) Load() int32                    { return LoadInt32(&x.v) }
func (x *Int32) Store(v int32)                  { StoreInt32(&x.v, v) }
func (x *Int32) Add(d int32) int32              { return AddInt32(&x.v, d) }
func (x *Int32) CompareAndSwap(o, n int32) bool { return CompareAndSwapInt32(&x.v, o, n) }

// Bool mirrors atomic.Bool.
type Bool struct{ v uint32 }

func (x *Bool) Load() bool { return LoadUint32(&x.v) != 0 }
func (x *Bool) Store(b bool) {
	if b {
		StoreUint32(&x.v, 1)
	} else {
		StoreUint32(&x.v, 0)
	}
}

// Value is the real atomic.Value.
type Value = atomic.Value
