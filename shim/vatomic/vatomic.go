//go:build verif

// Package vatomic mirrors the parts of sync/atomic that portbase uses, with a
// scheduling point before every operation.
package vatomic

import (
	"sync/atomic"

	"github.com/safing/portbase/zzverif/vsched"
)

func point(kind string, p interface{}) {
	if vsched.Active() {
		if vsched.Teardown() {
			return
		}
		vsched.Yield(&vsched.Op{Kind: "atomic", Obj: p, Label: kind, Enabled: func() bool { return true }})
	}
}

func AddInt32(p *int32, d int32) int32     { point("add", p); return atomic.AddInt32(p, d) }
func LoadInt32(p *int32) int32             { point("load", p); return atomic.LoadInt32(p) }
func StoreInt32(p *int32, v int32)         { point("store", p); atomic.StoreInt32(p, v) }
func AddUint32(p *uint32, d uint32) uint32 { point("add", p); return atomic.AddUint32(p, d) }
func LoadUint32(p *uint32) uint32          { point("load", p); return atomic.LoadUint32(p) }
func StoreUint32(p *uint32, v uint32)      { point("store", p); atomic.StoreUint32(p, v) }
func AddUint64(p *uint64, d uint64) uint64 { point("add", p); return atomic.AddUint64(p, d) }
func LoadUint64(p *uint64) uint64          { point("load", p); return atomic.LoadUint64(p) }
func StoreUint64(p *uint64, v uint64)      { point("store", p); atomic.StoreUint64(p, v) }
func AddInt64(p *int64, d int64) int64     { point("add", p); return atomic.AddInt64(p, d) }
func LoadInt64(p *int64) int64             { point("load", p); return atomic.LoadInt64(p) }
func StoreInt64(p *int64, v int64)         { point("store", p); atomic.StoreInt64(p, v) }
func CompareAndSwapUint32(p *uint32, o, n uint32) bool {
	point("cas", p)
	return atomic.CompareAndSwapUint32(p, o, n)
}
func CompareAndSwapInt32(p *int32, o, n int32) bool {
	point("cas", p)
	return atomic.CompareAndSwapInt32(p, o, n)
}

// Int32 mirrors atomic.Int32.
type Int32 struct{ v int32 }

func (x *Int32) Load() int32                    { return LoadInt32(&x.v) }
func (x *Int32) Store(v int32)                  { StoreInt32(&x.v, v) }
func (x *Int32) Add(d int32) int32              { return AddInt32(&x.v, d) }
func (x *Int32) CompareAndSwap(o, n int32) bool { return CompareAndSwapInt32(&x.v, o, n) }

// Bool mirrors atomic.Bool.
type Bool struct{ v uint32 }

func (x *Bool) Load() bool { return LoadUint32(&x.v) != 0 }
func (x *Bool) Store(b bool) {
	if b {
		StoreUint32(&x.v, 1)
	} else {
		StoreUint32(&x.v, 0)
	}
}

// Value is the real atomic.Value.
type Value = atomic.Value

func (x *Bool) Swap(b bool) bool {
	var n uint32
	if b {
		n = 1
	}
	point("swap", &x.v)
	return atomic.SwapUint32(&x.v, n) != 0
}

func (x *Bool) CompareAndSwap(o, n bool) bool {
	var ou, nu uint32
	if o {
		ou = 1
	}
	if n {
		nu = 1
	}
	return CompareAndSwapUint32(&x.v, ou, nu)
}

func CompareAndSwapInt64(p *int64, o, n int64) bool {
	point("cas", p)
	return atomic.CompareAndSwapInt64(p, o, n)
}

func CompareAndSwapUint64(p *uint64, o, n uint64) bool {
	point("cas", p)
	return atomic.CompareAndSwapUint64(p, o, n)
}
func SwapInt32(p *int32, n int32) int32     { point("swap", p); return atomic.SwapInt32(p, n) }
func SwapInt64(p *int64, n int64) int64     { point("swap", p); return atomic.SwapInt64(p, n) }
func SwapUint32(p *uint32, n uint32) uint32 { point("swap", p); return atomic.SwapUint32(p, n) }
func SwapUint64(p *uint64, n uint64) uint64 { point("swap", p); return atomic.SwapUint64(p, n) }

func (x *Int32) Swap(n int32) int32 { return SwapInt32(&x.v, n) }

// Int64 mirrors atomic.Int64.
type Int64 struct{ v int64 }

func (x *Int64) Load() int64                    { return LoadInt64(&x.v) }
func (x *Int64) Store(v int64)                  { StoreInt64(&x.v, v) }
func (x *Int64) Add(d int64) int64              { return AddInt64(&x.v, d) }
func (x *Int64) Swap(n int64) int64             { return SwapInt64(&x.v, n) }
func (x *Int64) CompareAndSwap(o, n int64) bool { return CompareAndSwapInt64(&x.v, o, n) }

// Uint32 mirrors atomic.Uint32.
type Uint32 struct{ v uint32 }

func (x *Uint32) Load() uint32                    { return LoadUint32(&x.v) }
func (x *Uint32) Store(v uint32)                  { StoreUint32(&x.v, v) }
func (x *Uint32) Add(d uint32) uint32             { return AddUint32(&x.v, d) }
func (x *Uint32) Swap(n uint32) uint32            { return SwapUint32(&x.v, n) }
func (x *Uint32) CompareAndSwap(o, n uint32) bool { return CompareAndSwapUint32(&x.v, o, n) }

// Uint64 mirrors atomic.Uint64.
type Uint64 struct{ v uint64 }

func (x *Uint64) Load() uint64                    { return LoadUint64(&x.v) }
func (x *Uint64) Store(v uint64)                  { StoreUint64(&x.v, v) }
func (x *Uint64) Add(d uint64) uint64             { return AddUint64(&x.v, d) }
func (x *Uint64) Swap(n uint64) uint64            { return SwapUint64(&x.v, n) }
func (x *Uint64) CompareAndSwap(o, n uint64) bool { return CompareAndSwapUint64(&x.v, o, n) }

// Pointer mirrors atomic.Pointer.
type Pointer[T any] struct{ p atomic.Pointer[T] }

func (x *Pointer[T]) Load() *T     { point("load", x); return x.p.Load() }
func (x *Pointer[T]) Store(v *T)   { point("store", x); x.p.Store(v) }
func (x *Pointer[T]) Swap(n *T) *T { point("swap", x); return x.p.Swap(n) }
func (x *Pointer[T]) CompareAndSwap(o, n *T) bool {
	point("cas", x)
	return x.p.CompareAndSwap(o, n)
}
