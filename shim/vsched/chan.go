//go:build verif

package vsched

import (
	"fmt"
	"unsafe"
)

// Channels stay real Go channels. Buffered operations are performed on the
// real channel once the scheduler has established that they cannot block;
// unbuffered hand-overs are performed by the shim (value passed directly
// between the two parked operations). Channels closed by uninstrumented code
// (context cancellation) are detected by a non-blocking probe.

type waiter struct {
	t    *Thread
	val  interface{} // *T: sender: pointer to value; receiver: pointer to destination
	ok   *bool       // receiver: set to false when woken by close
	done bool
	sel  *selState
	idx  int
}

type chanState struct {
	keep   interface{}
	closed bool
	sendq  []*waiter
	recvq  []*waiter
}

func chanKey[T any](ch chan T) uintptr {
	return uintptr(*(*unsafe.Pointer)(unsafe.Pointer(&ch)))
}

func stateOf(key uintptr, keep interface{}) *chanState {
	st := s.chans[key]
	if st == nil {
		st = &chanState{keep: keep}
		s.chans[key] = st
	}
	return st
}

func removeWaiter(q []*waiter, w *waiter) []*waiter {
	for i, x := range q {
		if x == w {
			return append(q[:i:i], q[i+1:]...)
		}
	}
	return q
}

// teardown is called first by every shim operation while an execution is
// active: during teardown it ends the thread (or makes the op a no-op inside
// deferred functions of an exiting thread) and reports true.
func teardown() bool {
	if s.aborting {
		abortHere(s.cur)
		return true
	}
	return false
}

// Teardown is the exported form for the other shim packages.
func Teardown() bool { return teardown() }

// probeClosed checks (without blocking and without stealing instrumented
// values) whether an empty channel was closed by uninstrumented code.
func probeClosed[T any](ch chan T, st *chanState) bool {
	if st.closed {
		return true
	}
	if len(ch) > 0 || len(st.sendq) > 0 {
		return false
	}
	select {
	case _, ok := <-ch:
		if !ok {
			st.closed = true
			return true
		}
		panic("vsched: probe received a value from a channel with no instrumented sender (uninstrumented sender?)")
	default:
		return false
	}
}

func otherSender(st *chanState, t *Thread) *waiter {
	for _, w := range st.sendq {
		if w.t != t && !w.done {
			return w
		}
	}
	return nil
}

func otherReceiver(st *chanState, t *Thread) *waiter {
	for _, w := range st.recvq {
		if w.t != t && !w.done {
			return w
		}
	}
	return nil
}

func chLabel(key uintptr, c int) string { return fmt.Sprintf("ch%x/%d", key&0xffffff, c) }

// complete marks a parked partner operation as completed by hand-over.
func complete(w *waiter) {
	w.done = true
	if w.sel != nil {
		w.sel.done = true
		w.sel.doneIdx = w.idx
		w.sel.unregister()
	}
}

// ---------- send ----------

// Send is `ch <- v`.
func Send[T any](ch chan<- T, v T) {
	if !s.active {
		ch <- v
		return
	}
	if teardown() {
		return
	}
	bch := *(*chan T)(unsafe.Pointer(&ch))
	if bch == nil {
		Yield(&Op{Kind: "send", Label: "nil-chan", Enabled: func() bool { return false }})
		return
	}
	key := chanKey(bch)
	st := stateOf(key, bch)
	t := s.cur
	if cap(bch) > 0 {
		Yield(&Op{Kind: "send", Obj: key, Label: chLabel(key, cap(bch)), Enabled: func() bool { return st.closed || len(bch) < cap(bch) }})
		if s.aborting {
			return
		}
		bch <- v // cannot block; panics like Go if closed
		return
	}
	w := &waiter{t: t, val: &v}
	st.sendq = append(st.sendq, w)
	Yield(&Op{Kind: "send", Obj: key, Label: chLabel(key, 0), Enabled: func() bool {
		return w.done || st.closed || otherReceiver(st, t) != nil
	}})
	if s.aborting {
		return
	}
	if w.done {
		return
	}
	st.sendq = removeWaiter(st.sendq, w)
	if st.closed {
		panic("send on closed channel")
	}
	r := otherReceiver(st, t)
	*(r.val.(*T)) = v
	if r.ok != nil {
		*r.ok = true
	}
	st.recvq = removeWaiter(st.recvq, r)
	complete(r)
}

// ---------- receive ----------

// Recv is `<-ch`.
func Recv[T any](ch <-chan T) T {
	v, _ := Recv2(ch)
	return v
}

// Recv2 is `v, ok := <-ch`.
func Recv2[T any](ch <-chan T) (v T, ok bool) {
	if !s.active {
		v, ok = <-ch
		return
	}
	if teardown() {
		return
	}
	bch := *(*chan T)(unsafe.Pointer(&ch))
	if bch == nil {
		Yield(&Op{Kind: "recv", Label: "nil-chan", Enabled: func() bool { return false }})
		return
	}
	key := chanKey(bch)
	st := stateOf(key, bch)
	t := s.cur
	if cap(bch) > 0 {
		Yield(&Op{Kind: "recv", Obj: key, Label: chLabel(key, cap(bch)), Enabled: func() bool { return len(bch) > 0 || probeClosed(bch, st) }})
		if s.aborting {
			return
		}
		if len(bch) > 0 {
			v, ok = <-bch
			return
		}
		return v, false // closed and empty
	}
	w := &waiter{t: t, val: &v, ok: &ok}
	st.recvq = append(st.recvq, w)
	Yield(&Op{Kind: "recv", Obj: key, Label: chLabel(key, 0), Enabled: func() bool {
		return w.done || otherSender(st, t) != nil || probeClosed(bch, st)
	}})
	if s.aborting {
		return
	}
	if w.done {
		return v, ok
	}
	st.recvq = removeWaiter(st.recvq, w)
	if sd := otherSender(st, t); sd != nil {
		v = *(sd.val.(*T))
		st.sendq = removeWaiter(st.sendq, sd)
		complete(sd)
		return v, true
	}
	return v, false // closed
}

// Close is `close(ch)`.
func Close[T any](ch chan<- T) {
	if !s.active {
		close(ch)
		return
	}
	if teardown() {
		return
	}
	bch := *(*chan T)(unsafe.Pointer(&ch))
	if bch == nil {
		panic("close of nil channel")
	}
	key := chanKey(bch)
	st := stateOf(key, bch)
	Yield(&Op{Kind: "close", Obj: key, Label: chLabel(key, cap(bch)), Enabled: alwaysEnabled})
	if s.aborting {
		return
	}
	if st.closed {
		panic("close of closed channel")
	}
	close(bch) // panics like Go if already closed by uninstrumented code
	st.closed = true
}

// ---------- select ----------

// SelCase is one case of a select.
type SelCase interface {
	ready(t *Thread) bool
	register(sel *selState, idx int)
	fire(t *Thread)
	label() string
	obj() uintptr
}

type selState struct {
	t       *Thread
	cases   []SelCase
	done    bool
	doneIdx int
	regs    []func()
}

func (sel *selState) unregister() {
	for _, f := range sel.regs {
		f()
	}
	sel.regs = nil
}

// RCase is a receive case.
type RCase[T any] struct {
	ch  chan T
	key uintptr
	st  *chanState
	v   T
	ok  bool
	w   *waiter
}

// RecvCase builds a receive case (channel expression evaluated by the caller, once).
func RecvCase[T any](ch <-chan T) *RCase[T] {
	c := &RCase[T]{ch: *(*chan T)(unsafe.Pointer(&ch))}
	if s.active && c.ch != nil {
		c.key = chanKey(c.ch)
		c.st = stateOf(c.key, c.ch)
	}
	return c
}

// Val returns the received value.
func (c *RCase[T]) Val() T { return c.v }

// Ok returns the received ok flag.
func (c *RCase[T]) Ok() bool { return c.ok }

func (c *RCase[T]) obj() uintptr { return c.key }
func (c *RCase[T]) label() string {
	if c.ch == nil {
		return "recv-nil"
	}
	return "recv-" + chLabel(c.key, cap(c.ch))
}

func (c *RCase[T]) ready(t *Thread) bool {
	if c.ch == nil {
		return false
	}
	if cap(c.ch) > 0 {
		return len(c.ch) > 0 || probeClosed(c.ch, c.st)
	}
	return otherSender(c.st, t) != nil || probeClosed(c.ch, c.st)
}

func (c *RCase[T]) register(sel *selState, idx int) {
	if c.ch == nil || cap(c.ch) > 0 {
		return
	}
	c.w = &waiter{t: sel.t, val: &c.v, ok: &c.ok, sel: sel, idx: idx}
	c.st.recvq = append(c.st.recvq, c.w)
	sel.regs = append(sel.regs, func() { c.st.recvq = removeWaiter(c.st.recvq, c.w) })
}

func (c *RCase[T]) fire(t *Thread) {
	if cap(c.ch) > 0 {
		if len(c.ch) > 0 {
			c.v, c.ok = <-c.ch
		} else {
			c.ok = false
		}
		return
	}
	if sd := otherSender(c.st, t); sd != nil {
		c.v = *(sd.val.(*T))
		c.ok = true
		c.st.sendq = removeWaiter(c.st.sendq, sd)
		complete(sd)
		return
	}
	c.ok = false // closed
}

// SCase is a send case.
type SCase[T any] struct {
	ch  chan T
	key uintptr
	st  *chanState
	v   T
	w   *waiter
}

// SendCase builds a send case (channel and value evaluated by the caller, once).
func SendCase[T any](ch chan<- T, v T) *SCase[T] {
	c := &SCase[T]{ch: *(*chan T)(unsafe.Pointer(&ch)), v: v}
	if s.active && c.ch != nil {
		c.key = chanKey(c.ch)
		c.st = stateOf(c.key, c.ch)
	}
	return c
}

func (c *SCase[T]) obj() uintptr { return c.key }
func (c *SCase[T]) label() string {
	if c.ch == nil {
		return "send-nil"
	}
	return "send-" + chLabel(c.key, cap(c.ch))
}

func (c *SCase[T]) ready(t *Thread) bool {
	if c.ch == nil {
		return false
	}
	if c.st.closed {
		return true
	}
	if cap(c.ch) > 0 {
		return len(c.ch) < cap(c.ch)
	}
	return otherReceiver(c.st, t) != nil
}

func (c *SCase[T]) register(sel *selState, idx int) {
	if c.ch == nil || cap(c.ch) > 0 {
		return
	}
	c.w = &waiter{t: sel.t, val: &c.v, sel: sel, idx: idx}
	c.st.sendq = append(c.st.sendq, c.w)
	sel.regs = append(sel.regs, func() { c.st.sendq = removeWaiter(c.st.sendq, c.w) })
}

func (c *SCase[T]) fire(t *Thread) {
	if c.st.closed {
		panic("send on closed channel")
	}
	if cap(c.ch) > 0 {
		c.ch <- c.v
		return
	}
	r := otherReceiver(c.st, t)
	*(r.val.(*T)) = c.v
	if r.ok != nil {
		*r.ok = true
	}
	c.st.recvq = removeWaiter(c.st.recvq, r)
	complete(r)
}

// Select performs a select over cases; hasDefault tells whether the statement
// has a default clause. It returns the index of the case taken, or -1 for default.
func Select(hasDefault bool, cases ...SelCase) int {
	if !s.active {
		return realSelect(hasDefault, cases)
	}
	if teardown() {
		return -1
	}
	t := s.cur
	sel := &selState{t: t, cases: cases}
	for i, c := range cases {
		c.register(sel, i)
	}
	anyReady := func() bool {
		if sel.done {
			return true
		}
		for _, c := range cases {
			if c.ready(t) {
				return true
			}
		}
		return false
	}
	lab := ""
	var firstObj interface{}
	for i, c := range cases {
		if i > 0 {
			lab += ","
		}
		lab += c.label()
		if firstObj == nil && c.obj() != 0 {
			firstObj = c.obj()
		}
	}
	if hasDefault {
		lab += ",default"
	}
	Yield(&Op{Kind: "select", Obj: firstObj, Label: lab, Enabled: func() bool { return hasDefault || anyReady() }})
	if s.aborting {
		sel.unregister()
		return -1
	}
	if sel.done {
		return sel.doneIdx
	}
	sel.unregister()
	var ready []int
	for i, c := range cases {
		if c.ready(t) {
			ready = append(ready, i)
		}
	}
	if len(ready) == 0 {
		if !hasDefault {
			panic("vsched: select scheduled with no ready case")
		}
		return -1
	}
	pick := 0
	if len(ready) > 1 && s.window {
		pick = decide(len(ready), s.selectCost, "select", func() string { return lab })
		if pick < 0 {
			// replay diverged: execution is ending; park until aborted
			<-t.wake
			abortHere(t)
			return -1
		}
	}
	idx := ready[pick]
	cases[idx].fire(t)
	return idx
}

// realSelect implements Select in pass-through mode with reflect-free polling
// semantics: it uses the real channels through the cases' own typed code.
func realSelect(hasDefault bool, cases []SelCase) int {
	return passSelect(hasDefault, cases)
}
