//go:build verif

package vsched

import "reflect"

type reflCase interface {
	reflectCase() reflect.SelectCase
	setResult(v reflect.Value, ok bool)
}

func (c *RCase[T]) reflectCase() reflect.SelectCase {
	return reflect.SelectCase{Dir: reflect.SelectRecv, Chan: reflect.ValueOf(c.ch)}
}

func (c *RCase[T]) setResult(v reflect.Value, ok bool) {
	c.ok = ok
	if ok {
		c.v = v.Interface().(T)
	}
}

func (c *SCase[T]) reflectCase() reflect.SelectCase {
	return reflect.SelectCase{Dir: reflect.SelectSend, Chan: reflect.ValueOf(c.ch), Send: reflect.ValueOf(&c.v).Elem()}
}

func (c *SCase[T]) setResult(reflect.Value, bool) {}

func passSelect(hasDefault bool, cases []SelCase) int {
	rc := make([]reflect.SelectCase, 0, len(cases)+1)
	for _, c := range cases {
		rc = append(rc, c.(reflCase).reflectCase())
	}
	if hasDefault {
		rc = append(rc, reflect.SelectCase{Dir: reflect.SelectDefault})
	}
	i, v, ok := reflect.Select(rc)
	if i == len(cases) {
		return -1
	}
	cases[i].(reflCase).setResult(v, ok)
	return i
}
