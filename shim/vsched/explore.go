//go:build verif

package vsched

import (
	"crypto/sha256"
	"encoding/hex"
	"fmt"
	"strings"
	"time"
)

// Scenario is one closed driver to be explored.
type Scenario struct {
	Name               string
	Reset              func()                  // brings all package state back to its initial value; called before every execution
	Body               func()                  // root thread
	Check              func(r *Result) []Issue // oracle over one finished execution
	Invariant          func() string           // optional state invariant, evaluated at every step inside the window
	MaxSteps           int
	MapDesc            bool
	PreemptIn          []string // see Config.PreemptIn
	PreemptionBounding bool
	HighFirst          bool
}

// Issue is an oracle complaint about one execution.
type Issue struct {
	Clause string
	Disc   string
	Detail string
}

// Found is an issue together with the schedule that produced it.
type Found struct {
	Issue
	Scenario string
	Choices  []int
	MapDesc  bool
	Trace    []string
	Cost     int
}

// Stats of one exploration.
type Stats struct {
	Executions     int64
	Points         int64 // scheduler steps (transitions)
	Decisions      int64 // decision points with >1 option visited (states)
	MaxDepth       int
	BoundCompleted int
	Complete       bool // the bound level was fully enumerated
	Traces         map[string]int64
	Deadlocks      int64
	StepLimits     int64
	Truncated      string
	Sample         []string
}

// Options of an exploration.
type Options struct {
	Bound      int
	Deadline   time.Time
	MaxExec    int64
	SelectCost int
	// OnExec is called for every finished execution (coverage bookkeeping).
	OnExec func(r *Result)
	// Claim, if set, partitions the exploration between cooperating processes: the subtrees
	// below the first-level alternatives are grouped into chunks and a chunk is explored only
	// by the process whose Claim(chunk) returns true; Claim(-1) decides who accounts for the
	// root execution. Every process runs the root execution itself to learn the alternatives.
	Claim func(chunk int) bool
}

const claimChunk = 4

// DumpAllTraces keeps a sample of every distinct trace (debugging aid).
var DumpAllTraces = false

// TraceKey canonicalises the observation trace of an execution.
func TraceKey(r *Result) string {
	var sb strings.Builder
	for _, e := range r.Events {
		fmt.Fprintf(&sb, "%d:%s@%d;", e.T, e.Name, int64(e.Now))
	}
	if r.Deadlock {
		sb.WriteString("DEADLOCK;")
	}
	if r.Panic != "" {
		sb.WriteString("PANIC;")
	}
	if r.StepLimit {
		sb.WriteString("STEPLIMIT;")
	}
	h := sha256.Sum256([]byte(sb.String()))
	return hex.EncodeToString(h[:8])
}

// RunOnce runs one execution of sc with the given choices.
func RunOnce(sc *Scenario, choices []int, selectCost int) *Result {
	if sc.Reset != nil {
		sc.Reset()
	}
	return Run(Config{Prefix: choices, MaxSteps: sc.MaxSteps, Invariant: sc.Invariant, SelectCost: selectCost, MapDesc: sc.MapDesc, PreemptIn: sc.PreemptIn, PreemptionBounding: sc.PreemptionBounding, HighFirst: sc.HighFirst}, sc.Body)
}

// EventNames renders the events of a result.
func EventNames(r *Result) []string {
	out := make([]string, 0, len(r.Events))
	for _, e := range r.Events {
		out = append(out, fmt.Sprintf("T%d %s @%s", e.T, e.Name, e.Now))
	}
	return out
}

// ExploreScenario enumerates all executions of sc whose total deviation cost
// (preemptions + non-default select cases) is <= opt.Bound, depth-first,
// re-executing from a fresh state for every choice sequence.
func ExploreScenario(sc *Scenario, opt Options) (*Stats, []Found, error) {
	st := &Stats{Traces: map[string]int64{}, Complete: true, BoundCompleted: opt.Bound}
	var found []Found
	seenIssue := map[string]bool{}
	type item struct {
		prefix []int
		ns     []int // expected option counts along the prefix (replay validation)
		chunk  int   // >0: first-level subtree, explored only if chunk-1 is claimed
	}
	stack := []item{{}}
	claimed := map[int]bool{}
	rootMine := opt.Claim == nil || opt.Claim(-1)
	level1 := 0
	for len(stack) > 0 {
		if (opt.MaxExec > 0 && st.Executions >= opt.MaxExec) || (!opt.Deadline.IsZero() && st.Executions%64 == 0 && time.Now().After(opt.Deadline)) {
			st.Complete = false
			st.Truncated = fmt.Sprintf("budget reached with %d prefixes pending", len(stack))
			break
		}
		if st.StepLimits >= 8 {
			// every further schedule of this driver is likely to run into the horizon as well (each costs the full
			// horizon): the finding is recorded, stop here
			st.Complete = false
			st.Truncated = fmt.Sprintf("%d executions hit the step horizon; %d prefixes not explored", st.StepLimits, len(stack))
			break
		}
		it := stack[len(stack)-1]
		stack = stack[:len(stack)-1]
		if it.chunk > 0 && opt.Claim != nil {
			ok, seen := claimed[it.chunk]
			if !seen {
				ok = opt.Claim(it.chunk - 1)
				claimed[it.chunk] = ok
			}
			if !ok {
				continue
			}
		}
		r := RunOnce(sc, it.prefix, opt.SelectCost)
		isRoot := len(it.prefix) == 0
		count := !isRoot || rootMine
		if count {
			st.Executions++
			st.Points += int64(r.Steps)
		}
		if r.Diverged != "" {
			return st, found, fmt.Errorf("scenario %s: replay diverged: %s (prefix %v)", sc.Name, r.Diverged, it.prefix)
		}
		if len(r.Decisions) < len(it.prefix) {
			return st, found, fmt.Errorf("scenario %s: replay shorter than prefix: %d decisions, prefix %v", sc.Name, len(r.Decisions), it.prefix)
		}
		for i, n := range it.ns {
			if r.Decisions[i].N != n {
				return st, found, fmt.Errorf("scenario %s: replay diverged at decision %d: %d options, expected %d (prefix %v)", sc.Name, i, r.Decisions[i].N, n, it.prefix)
			}
		}
		key := TraceKey(r)
		if count {
			if r.Deadlock {
				st.Deadlocks++
			}
			if r.StepLimit {
				st.StepLimits++
			}
			if len(r.Decisions) > st.MaxDepth {
				st.MaxDepth = len(r.Decisions)
			}
			st.Decisions += int64(len(r.Decisions) - len(it.prefix))
			st.Traces[key]++
			if st.Traces[key] == 1 && (len(st.Sample) < 3 || DumpAllTraces) {
				st.Sample = append(st.Sample, fmt.Sprintf("choices=%v events=%s", chosen(r), strings.Join(EventNames(r), "; ")))
			}
			if opt.OnExec != nil {
				opt.OnExec(r)
			}
		}
		if sc.Check != nil && count {
			for _, is := range sc.Check(r) {
				k := is.Clause + "|" + is.Disc
				if seenIssue[k] {
					continue
				}
				seenIssue[k] = true
				// confirm determinism: the same schedule must fail the same way again
				ch := chosen(r)
				for rep := 0; rep < 2; rep++ {
					r2 := RunOnce(sc, ch, opt.SelectCost)
					if TraceKey(r2) != key {
						return st, found, fmt.Errorf("scenario %s: nondeterministic replay of a violating schedule %v", sc.Name, ch)
					}
				}
				found = append(found, Found{Issue: is, Scenario: sc.Name, Choices: ch, MapDesc: sc.MapDesc, Trace: EventNames(r), Cost: costOf(r.Decisions, len(r.Decisions))})
			}
		}
		// expand alternatives behind the prefix - not behind an execution that ran into the step horizon: it has tens
		// of thousands of decision points, each alternative would cost the full horizon again (and the prefixes alone
		// would take gigabytes); the execution itself has been judged
		if r.StepLimit {
			st.Complete = false
			if st.Truncated == "" {
				st.Truncated = "alternatives behind an execution that hit the step horizon are not explored"
			}
			continue
		}
		ns := make([]int, len(r.Decisions))
		for i, d := range r.Decisions {
			ns[i] = d.N
		}
		cost := costOf(r.Decisions, len(it.prefix))
		for i := len(it.prefix); i < len(r.Decisions); i++ {
			d := r.Decisions[i]
			if cost+d.Cost <= opt.Bound {
				for alt := d.N - 1; alt >= 1; alt-- {
					p := make([]int, i+1)
					for j := 0; j < i; j++ {
						p[j] = r.Decisions[j].Chosen
					}
					p[i] = alt
					ni := item{prefix: p, ns: ns[:i+1], chunk: it.chunk}
					if isRoot {
						ni.chunk = level1/claimChunk + 1
						level1++
					}
					stack = append(stack, ni)
				}
			}
			if d.Chosen != 0 {
				cost += d.Cost
			}
		}
	}
	return st, found, nil
}

func chosen(r *Result) []int {
	out := make([]int, len(r.Decisions))
	for i, d := range r.Decisions {
		out[i] = d.Chosen
	}
	return out
}

func costOf(ds []Decision, upto int) int {
	c := 0
	for i := 0; i < upto && i < len(ds); i++ {
		if ds[i].Chosen != 0 {
			c += ds[i].Cost
		}
	}
	return c
}
