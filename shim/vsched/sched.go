//go:build verif

// Package vsched is the controlled scheduler of engine S. While an execution
// is active exactly one managed goroutine ("thread") runs at any time; it
// runs from one scheduling point to the next, where the pending operations of
// all parked threads are evaluated for enabledness and the next thread is
// chosen - that choice is what the explorer enumerates. Blocking is modelled
// (a thread whose operation cannot complete is not enabled), so a released
// thread never blocks in the Go runtime.
//
// With no execution active every shim delegates to the real primitive.
package vsched

import (
	"fmt"
	"runtime"
	"runtime/debug"
	"sort"
	"strings"
	"syscall"
	"time"
)

// Op is a pending operation of a parked thread.
type Op struct {
	Kind    string      // lock, rlock, atomic, send, recv, select, sleep, wgwait, start, event, quiesce, point
	Obj     interface{} // object identity (pointer) for the dependence relation
	Label   string
	Enabled func() bool
	quiesce bool
	site    string // calling portbase function (resolved lazily, only inside the window)
}

// Thread is a managed goroutine.
type Thread struct {
	ID       int
	Name     string
	wake     chan struct{}
	done     chan struct{}
	op       *Op
	finished bool
	exiting  bool
	parent   int
	sealed   int // depth of calls into packages instrumented in sealed mode
}

// Decision is one recorded choice with more than one option.
type Decision struct {
	N      int    // number of options
	Chosen int    // index taken
	Cost   int    // cost of taking an alternative (1 = preemption / deviation, 0 = free switch)
	Kind   string // "thread" or "select"
	Label  string // what was chosen between
}

// Event is a harness-visible observation.
type Event struct {
	T    int // thread id
	Name string
	Now  time.Duration
}

// Result describes one finished execution.
type Result struct {
	Decisions   []Decision
	Events      []Event
	Deadlock    bool
	Panic       string // uncontained panic (value + stack), "" if none
	PanicThread string
	StepLimit   bool
	Steps       int
	Threads     int
	EndNow      time.Duration
	Diverged    string // replay divergence (engine error)
	Blocked     []string
}

type state struct {
	active   bool
	aborting bool
	cur      *Thread
	threads  []*Thread
	now      time.Duration
	timers   []*timer
	timerSeq int

	prefix    []int
	decisions []Decision
	window    bool
	events    []Event
	steps     int
	maxSteps  int
	chans     map[uintptr]*chanState

	deadlock  bool
	panicMsg  string
	panicThr  string
	stepLimit bool
	diverged  string
	blocked   []string
	ended     chan struct{}
	endedFlag bool

	invariant   func() string // evaluated after every step while in window; non-empty = violation text
	invFailed   string
	selectCost  int
	watchdogHit bool
	mapDesc     bool
	enabledBuf  []*Thread
	highFirst   bool     // default scheduler prefers the youngest (highest id) enabled thread instead of the oldest
	preemptIn   []string // function-name prefixes whose points may be preempted (nil = everywhere)
	switchCost  int      // cost of a non-default choice when the running thread cannot continue (0 = preemption bounding, 1 = delay bounding)
}

var s state

// Epoch is the start of virtual time.
var Epoch = time.Date(2030, 1, 1, 0, 0, 0, 0, time.UTC)

var runID uint64

// RunID identifies the current execution (modelled primitives stamp their state with it,
// so state left over from an earlier execution is never mistaken for current).
func RunID() uint64 { return runID }

// Active reports whether an execution is being controlled.
func Active() bool { return s.active }

// Aborting reports whether the execution is being torn down.
func Aborting() bool { return s.aborting }

// Now returns the virtual clock offset.
func Now() time.Duration { return s.now }

// CurID returns the running thread id (-1 if none).
func CurID() int {
	if s.cur == nil {
		return -1
	}
	return s.cur.ID
}

// MapDescending reports the map iteration direction of this execution.
func MapDescending() bool { return s.active && s.mapDesc }

// Config of one execution.
type Config struct {
	Prefix     []int
	MaxSteps   int
	SelectCost int // cost of choosing a non-first ready select case (default 1)
	MapDesc    bool
	Invariant  func() string
	// PreemptIn restricts preemptions (switching away from a thread that could continue) to points
	// whose calling function name starts with one of these prefixes; points elsewhere are only
	// switch points when the thread blocks there. Empty = preempt everywhere.
	PreemptIn []string
	// PreemptionBounding makes switches at blocking points free (CHESS); the default is delay
	// bounding: every departure from the deterministic default scheduler costs 1.
	PreemptionBounding bool
	// HighFirst: when the running thread cannot continue, the default scheduler picks the
	// youngest enabled thread (highest id) instead of the oldest.
	HighFirst bool
}

// Run executes root under the scheduler with the given choice prefix and
// returns the recorded result. It must not be called concurrently.
func Run(cfg Config, root func()) *Result {
	if s.active {
		panic("vsched: nested Run")
	}
	runID++
	s = state{active: true, prefix: cfg.Prefix, maxSteps: cfg.MaxSteps, chans: map[uintptr]*chanState{}, ended: make(chan struct{}),
		invariant: cfg.Invariant, selectCost: cfg.SelectCost, mapDesc: cfg.MapDesc, preemptIn: cfg.PreemptIn, switchCost: 1, highFirst: cfg.HighFirst}
	if cfg.PreemptionBounding {
		s.switchCost = 0
	}
	if s.maxSteps == 0 {
		s.maxSteps = 200000
	}
	if s.selectCost == 0 {
		s.selectCost = 1
	}
	t := newThread("root", -1)
	s.cur = t
	go threadMain(t, root)
	t.wake <- struct{}{}
	<-s.ended
	// tear down: abort every unfinished thread, one at a time
	s.aborting = true
	for i := 0; i < len(s.threads); i++ { // threads may grow? no: Go() refuses while aborting
		th := s.threads[i]
		if th.finished {
			<-th.done
			continue
		}
		s.cur = th
		select {
		case th.wake <- struct{}{}:
		default:
		}
		// Watchdog: a thread that does not exit is an engine error. The wait is made of several separate timers so that
		// one jump of the real clock (a suspended machine, a snapshot) cannot expire it while the thread is about to exit.
		exited := false
		for round := 0; round < 6 && !exited; round++ {
			select {
			case <-th.done:
				exited = true
			case <-time.After(20 * time.Second):
			}
		}
		if !exited {
			s.watchdogHit = true
			msg := fmt.Sprintf("ENGINE-ERROR: vsched: thread %d (%s) did not exit during abort\n%s\n", th.ID, th.Name, allStacks())
			fmt.Print(msg)
			_, _ = syscall.Write(2, []byte(msg)) // os.Stderr may be redirected while an execution runs
			panic("vsched: abort watchdog")
		}
	}
	r := &Result{Decisions: s.decisions, Events: s.events, Deadlock: s.deadlock, Panic: s.panicMsg, PanicThread: s.panicThr,
		StepLimit: s.stepLimit, Steps: s.steps, Threads: len(s.threads), EndNow: s.now, Diverged: s.diverged, Blocked: s.blocked}
	if s.invFailed != "" {
		r.Events = append(r.Events, Event{T: -1, Name: "INVARIANT:" + s.invFailed, Now: s.now})
	}
	s.active = false
	s.aborting = false
	s.cur = nil
	return r
}

func allStacks() string {
	buf := make([]byte, 1<<20)
	n := runtime.Stack(buf, true)
	return string(buf[:n])
}

func newThread(name string, parent int) *Thread {
	t := &Thread{ID: len(s.threads), Name: name, wake: make(chan struct{}, 1), done: make(chan struct{}), parent: parent}
	t.op = &Op{Kind: "start", Label: name, Enabled: alwaysEnabled}
	s.threads = append(s.threads, t)
	return t
}

func alwaysEnabled() bool { return true }

func threadMain(t *Thread, f func()) {
	defer close(t.done)
	<-t.wake
	if s.aborting {
		t.finished = true
		return
	}
	t.op = nil
	defer func() {
		if t.exiting {
			// Goexit during abort (or deliberate): nothing to record
			t.finished = true
			return
		}
		if r := recover(); r != nil {
			if s.panicMsg == "" {
				s.panicMsg = fmt.Sprintf("%v\n%s", r, debug.Stack())
				s.panicThr = t.Name
			}
			t.finished = true
			endExecution()
			return
		}
		t.finished = true
		if s.aborting {
			return
		}
		if t.ID == 0 {
			endExecution()
			return
		}
		// hand over to the next thread (free switch)
		next := pickNext(t)
		if next == nil {
			return // execution ended (deadlock etc.)
		}
		s.cur = next
		next.wake <- struct{}{}
	}()
	f()
}

func endExecution() {
	if !s.endedFlag {
		s.endedFlag = true
		close(s.ended)
	}
}

// Go starts f as a managed thread (or as a plain goroutine when inactive).
func Go(site string, f func()) {
	if !s.active {
		go f()
		return
	}
	if s.aborting {
		return
	}
	t := newThread(site, s.cur.ID)
	go threadMain(t, f)
}

// Yield is a scheduling point: the running thread announces its next
// operation, the scheduler picks who runs. On return the caller has been
// chosen and its operation is enabled; the caller then performs it.
func Yield(op *Op) {
	t := s.cur
	if s.aborting {
		abortHere(t)
		return
	}
	t.op = op
	next := pickNext(t)
	if next == nil {
		// execution ended while we were parked: wait to be aborted
		<-t.wake
		abortHere(t)
		return
	}
	if next != t {
		s.cur = next
		next.wake <- struct{}{}
		<-t.wake
		if s.aborting {
			abortHere(t)
			return
		}
	}
	t.op = nil
}

// abortHere ends the calling thread during teardown. It never returns: also inside
// deferred functions of an already exiting thread the goroutine exits again
// (nested runtime.Goexit keeps running the remaining deferred calls), so no
// portbase code ever continues behind a shim operation once teardown began.
func abortHere(t *Thread) {
	if t != nil {
		t.exiting = true
	}
	runtime.Goexit()
}

// Exiting reports whether the calling thread is being torn down (shim ops must be no-ops).
func Exiting() bool {
	return s.aborting
}

func labelOf(t *Thread) string {
	if t.op == nil {
		return fmt.Sprintf("T%d(%s):-", t.ID, t.Name)
	}
	return fmt.Sprintf("T%d:%s:%s", t.ID, t.op.Kind, t.op.Label)
}

// maxFruitlessTimers bounds the number of consecutive timer firings that enable no thread (see pickNext).
const maxFruitlessTimers = 20000

// pickNext computes the enabled set, consults the prefix / default policy and
// returns the thread to run next (nil if the execution ended).
func pickNext(cur *Thread) *Thread {
	s.steps++
	if s.steps > s.maxSteps {
		s.stepLimit = true
		endExecution()
		return nil
	}
	if s.window && s.invariant != nil && s.invFailed == "" {
		if msg := s.invariant(); msg != "" {
			s.invFailed = msg
			endExecution()
			return nil
		}
	}
	// timers that are already due (created with a non-positive duration, or overtaken by the clock) fire at once: they do
	// not wait for the system to go idle
	if len(s.timers) > 0 {
		for {
			tm := nextTimer()
			if tm == nil || tm.when > s.now {
				break
			}
			fireNextTimer()
		}
	}
	fruitless := 0
	for {
		enabled := s.enabledBuf[:0]
		var quiescers []*Thread
		for _, th := range s.threads {
			if th.finished || th.op == nil {
				continue
			}
			if th.op.quiesce {
				quiescers = append(quiescers, th)
				continue
			}
			if th.op.Enabled() {
				enabled = append(enabled, th)
			}
		}
		s.enabledBuf = enabled
		if len(enabled) == 0 {
			if len(quiescers) > 0 {
				enabled = quiescers[:1]
			} else if fruitless < maxFruitlessTimers && fireNextTimer() {
				// only periodic timers (tickers nobody waits for) can fire again and again without enabling a thread;
				// after hours of virtual time in which no thread could run the execution is a deadlock
				fruitless++
				continue
			} else {
				s.deadlock = true
				for _, th := range s.threads {
					if !th.finished {
						s.blocked = append(s.blocked, labelOf(th))
					}
				}
				endExecution()
				return nil
			}
		}
		// canonical order: current thread first (if enabled), then ascending (or descending) id
		if s.highFirst && len(enabled) > 1 {
			for i, j := 0, len(enabled)-1; i < j; i, j = i+1, j-1 {
				enabled[i], enabled[j] = enabled[j], enabled[i]
			}
		}
		curEnabled := false
		if len(enabled) > 1 {
			for i, th := range enabled {
				if th == cur {
					curEnabled = true
					copy(enabled[1:i+1], enabled[:i])
					enabled[0] = cur
					break
				}
			}
		} else if enabled[0] == cur {
			curEnabled = true
		}
		if len(enabled) == 1 || !s.window {
			return enabled[0]
		}
		if curEnabled && !preemptible(cur, cur.op) {
			return cur
		}
		cost := s.switchCost
		if curEnabled {
			cost = 1
		}
		idx := decide(len(enabled), cost, "thread", func() string {
			var sb strings.Builder
			for i, th := range enabled {
				if i > 0 {
					sb.WriteString(" | ")
				}
				sb.WriteString(labelOf(th))
			}
			return sb.String()
		})
		if idx < 0 {
			return nil
		}
		return enabled[idx]
	}
}

// preemptible: operations issued from inside a package instrumented in sealed
// mode (the thread's seal depth is > 0) are switch points only when they block.
func preemptible(t *Thread, op *Op) bool {
	if t.sealed == 0 || op == nil || op.Kind == "event" || op.Kind == "point" {
		return true
	}
	return false
}

// SealEnter / SealLeave bracket every function of a sealed package (inserted by instr).
func SealEnter() {
	if s.active && s.cur != nil {
		s.cur.sealed++
	}
}

// SealLeave is the deferred counterpart of SealEnter.
func SealLeave() {
	if s.active && s.cur != nil && s.cur.sealed > 0 {
		s.cur.sealed--
	}
}

var siteCache = map[uintptr]string{}

// callerSite returns the name of the innermost calling function outside the shims.
func callerSite() string {
	var pcs [6]uintptr
	n := runtime.Callers(4, pcs[:])
	for _, pc := range pcs[:n] {
		name, ok := siteCache[pc]
		if !ok {
			if f := runtime.FuncForPC(pc - 1); f != nil {
				name = f.Name()
			}
			siteCache[pc] = name
		}
		if name != "" && !strings.Contains(name, "/zzverif/") {
			return name
		}
	}
	return "?"
}

// decide records a choice among n options and returns the index to take.
func decide(n, cost int, kind string, label func() string) int {
	i := len(s.decisions)
	chosen := 0
	if i < len(s.prefix) {
		chosen = s.prefix[i]
		if chosen < 0 || chosen >= n {
			s.diverged = fmt.Sprintf("decision %d: prefix wants option %d of %d (%s)", i, chosen, n, label())
			endExecution()
			return -1
		}
	}
	d := Decision{N: n, Chosen: chosen, Cost: cost, Kind: kind}
	if recordLabels {
		d.Label = label()
	}
	s.decisions = append(s.decisions, d)
	return chosen
}

var recordLabels = false

// RecordLabels switches on labels in decisions (for replays / traces).
func RecordLabels(on bool) { recordLabels = on }

// Explore opens (true) or closes (false) the window in which choices are enumerated.
func Explore(on bool) {
	if s.active {
		s.window = on
	}
}

// InWindow reports whether choices are currently enumerated.
func InWindow() bool { return s.active && s.window }

// Point is a plain scheduling point (always enabled).
func Point(label string) {
	if !s.active {
		return
	}
	if s.aborting {
		abortHere(s.cur)
		return
	}
	Yield(&Op{Kind: "point", Label: label, Enabled: alwaysEnabled})
}

// Emit records a harness event without yielding.
func Emit(name string) {
	if !s.active || s.aborting {
		return
	}
	s.events = append(s.events, Event{T: s.cur.ID, Name: name, Now: s.now})
}

// Ev is a scheduling point followed by an event record: the oracle observes
// the order of events, so they are points like any other shared access.
func Ev(name string) {
	if !s.active {
		return
	}
	if s.aborting {
		abortHere(s.cur)
		return
	}
	Yield(&Op{Kind: "event", Label: name, Obj: &s.events, Enabled: alwaysEnabled})
	s.events = append(s.events, Event{T: s.cur.ID, Name: name, Now: s.now})
}

// Quiesce parks the caller until no other thread is enabled (timers are not
// fired). It returns immediately if nothing else can run.
func Quiesce() {
	if !s.active {
		return
	}
	if s.aborting {
		abortHere(s.cur)
		return
	}
	Yield(&Op{Kind: "quiesce", Label: "quiesce", Enabled: alwaysEnabled, quiesce: true})
}

// BlockedThreads lists the labels of unfinished threads other than the caller.
func BlockedThreads() []string {
	var out []string
	for _, th := range s.threads {
		if !th.finished && th != s.cur {
			out = append(out, labelOf(th))
		}
	}
	return out
}

// EventsSoFar returns the events recorded so far (for state invariants).
func EventsSoFar() []Event { return s.events }

// ---------- virtual time ----------

type timer struct {
	when   time.Duration
	seq    int
	fire   func()
	period time.Duration
	dead   bool
}

func addTimer(d time.Duration, period time.Duration, fire func()) *timer {
	if d < 0 {
		d = 0
	}
	s.timerSeq++
	tm := &timer{when: s.now + d, seq: s.timerSeq, fire: fire, period: period}
	s.timers = append(s.timers, tm)
	return tm
}

// AddTimer registers a virtual timer (used by vtime).
func AddTimer(d, period time.Duration, fire func()) interface{ Stop() bool } {
	return addTimer(d, period, fire)
}

func (tm *timer) Stop() bool {
	was := !tm.dead
	tm.dead = true
	return was
}

// ResetTimer re-arms a timer created by AddTimer.
func ResetTimer(h interface{ Stop() bool }, d, period time.Duration) {
	tm := h.(*timer)
	if d < 0 {
		d = 0
	}
	s.timerSeq++
	tm.when, tm.period, tm.seq = s.now+d, period, s.timerSeq
	if tm.dead {
		tm.dead = false
		for _, x := range s.timers {
			if x == tm {
				return
			}
		}
		s.timers = append(s.timers, tm)
	}
}

func nextTimer() *timer {
	var best *timer
	live := s.timers[:0]
	for _, tm := range s.timers {
		if tm.dead {
			continue
		}
		live = append(live, tm)
		if best == nil || tm.when < best.when || (tm.when == best.when && tm.seq < best.seq) {
			best = tm
		}
	}
	s.timers = live
	return best
}

func fireNextTimer() bool {
	tm := nextTimer()
	if tm == nil {
		return false
	}
	if tm.when > s.now {
		s.now = tm.when
	}
	if tm.period > 0 {
		tm.when += tm.period
		s.timerSeq++
		tm.seq = s.timerSeq
	} else {
		tm.dead = true
	}
	tm.fire()
	return true
}

// Advance moves the virtual clock forward by d, firing due timers in order and
// letting the system go quiescent after each one. Called by the root thread.
func Advance(d time.Duration) {
	if !s.active {
		return
	}
	target := s.now + d
	for {
		Quiesce()
		tm := nextTimer()
		if tm == nil || tm.when > target {
			break
		}
		fireNextTimer()
	}
	if s.now < target {
		s.now = target
	}
	Quiesce()
}

// AdvanceRacing moves the virtual clock forward by d and fires the timers that become due, WITHOUT letting the woken
// threads run first: they are merely enabled and race with whatever the caller does next. (Advance lets the system go
// quiescent after every timer, so a timer can never fire "while" another thread is in the middle of an operation.)
func AdvanceRacing(d time.Duration) {
	if !s.active {
		return
	}
	target := s.now + d
	for {
		tm := nextTimer()
		if tm == nil || tm.when > target {
			break
		}
		fireNextTimer()
	}
	if s.now < target {
		s.now = target
	}
}

// PendingTimers returns the number of live timers (diagnostics).
func PendingTimers() int {
	n := 0
	for _, tm := range s.timers {
		if !tm.dead {
			n++
		}
	}
	return n
}

// SleepUntil parks the caller until the virtual clock reaches now+d.
func Sleep(d time.Duration) {
	if !s.active {
		time.Sleep(d)
		return
	}
	if s.aborting {
		abortHere(s.cur)
		return
	}
	deadline := s.now + d
	addTimer(d, 0, func() {})
	Yield(&Op{Kind: "sleep", Label: d.String(), Enabled: func() bool { return s.now >= deadline }})
}

// ---------- helpers for sorted map iteration ----------

// Keys returns the keys of m in the execution's canonical order.
func Keys[K interface {
	~string | ~int | ~int8 | ~int16 | ~int32 | ~int64 | ~uint | ~uint8 | ~uint16 | ~uint32 | ~uint64 | ~uintptr | ~float32 | ~float64
}, V any](m map[K]V) []K {
	keys := make([]K, 0, len(m))
	for k := range m {
		keys = append(keys, k)
	}
	if MapDescending() {
		sort.Slice(keys, func(i, j int) bool { return keys[i] > keys[j] })
	} else {
		sort.Slice(keys, func(i, j int) bool { return keys[i] < keys[j] })
	}
	return keys
}

// Zero zeroes *p (used by generated reset code).
func Zero[T any](p *T) {
	var z T
	*p = z
}
