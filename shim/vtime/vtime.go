//go:build verif

// Package vtime mirrors the parts of package time that portbase uses. Types,
// constants and pure functions are the real ones; Now, Since, Until, Sleep,
// After, NewTimer, NewTicker, AfterFunc and Tick run on the virtual clock of
// the scheduler while an execution is active (or while a manual clock is
// installed with SetManual), and on the real clock otherwise.
package vtime

import (
	"time"

	"github.com/safing/portbase/zzverif/vsched"
)

type (
	Time     = time.Time
	Duration = time.Duration
	Month    = time.Month
	Weekday  = time.Weekday
	Location = time.Location
)

const (
	Nanosecond  = time.Nanosecond
	Microsecond = time.Microsecond
	Millisecond = time.Millisecond
	Second      = time.Second
	Minute      = time.Minute
	Hour        = time.Hour

	RFC3339     = time.RFC3339
	RFC3339Nano = time.RFC3339Nano
	RFC1123     = time.RFC1123
	RFC822      = time.RFC822
	Kitchen     = time.Kitchen
	ANSIC       = time.ANSIC
	UnixDate    = time.UnixDate
	Stamp       = time.Stamp
	DateOnly    = time.DateOnly
	TimeOnly    = time.TimeOnly
	DateTime    = time.DateTime

	January = time.January
)

var (
	UTC   = time.UTC
	Local = time.Local

	Parse           = time.Parse
	ParseDuration   = time.ParseDuration
	ParseInLocation = time.ParseInLocation
	Date            = time.Date
	Unix            = time.Unix
	UnixMilli       = time.UnixMilli
	UnixMicro       = time.UnixMicro
	LoadLocation    = time.LoadLocation
	FixedZone       = time.FixedZone
)

// manual clock for engine-Q harnesses (no scheduler active)
var (
	manual    bool
	manualNow time.Time
)

// SetManual installs (or removes) a manual clock used while no execution is active.
func SetManual(on bool, now time.Time) { manual, manualNow = on, now }

// AdvanceManual moves the manual clock.
func AdvanceManual(d time.Duration) { manualNow = manualNow.Add(d) }

// Now returns the current (virtual) time.
func Now() time.Time {
	if vsched.Active() {
		return vsched.Epoch.Add(vsched.Now())
	}
	if manual {
		return manualNow
	}
	return time.Now()
}

func Since(t time.Time) time.Duration { return Now().Sub(t) }
func Until(t time.Time) time.Duration { return t.Sub(Now()) }

func Sleep(d time.Duration) {
	if vsched.Active() {
		if vsched.Teardown() {
			return
		}
		vsched.Sleep(d)
		return
	}
	if manual {
		manualNow = manualNow.Add(d)
		return
	}
	time.Sleep(d)
}

func After(d time.Duration) <-chan time.Time {
	if !vsched.Active() {
		return time.After(d)
	}
	return NewTimer(d).C
}

func Tick(d time.Duration) <-chan time.Time {
	if !vsched.Active() {
		return time.Tick(d) //nolint
	}
	return NewTicker(d).C
}

// Timer mirrors time.Timer.
type Timer struct {
	C    <-chan time.Time
	c    chan time.Time
	real *time.Timer
	h    interface{ Stop() bool }
	f    func()
}

func NewTimer(d time.Duration) *Timer {
	if !vsched.Active() {
		rt := time.NewTimer(d)
		return &Timer{C: rt.C, real: rt}
	}
	c := make(chan time.Time, 1)
	t := &Timer{C: c, c: c}
	if vsched.Aborting() {
		return t
	}
	t.h = vsched.AddTimer(d, 0, func() {
		select {
		case c <- Now():
		default:
		}
	})
	return t
}

func AfterFunc(d time.Duration, f func()) *Timer {
	if !vsched.Active() {
		return &Timer{real: time.AfterFunc(d, f)}
	}
	t := &Timer{f: f}
	if vsched.Aborting() {
		return t
	}
	t.h = vsched.AddTimer(d, 0, func() { vsched.Go("afterfunc", f) })
	return t
}

func (t *Timer) Stop() bool {
	if t.real != nil {
		return t.real.Stop()
	}
	if t.h == nil {
		return false
	}
	return t.h.Stop()
}

func (t *Timer) Reset(d time.Duration) bool {
	if t.real != nil {
		return t.real.Reset(d)
	}
	if t.h == nil || vsched.Aborting() {
		return false
	}
	was := t.h.Stop()
	vsched.ResetTimer(t.h, d, 0)
	return was
}

// Ticker mirrors time.Ticker.
type Ticker struct {
	C    <-chan time.Time
	c    chan time.Time
	real *time.Ticker
	h    interface{ Stop() bool }
}

func NewTicker(d time.Duration) *Ticker {
	if d <= 0 {
		panic("non-positive interval for NewTicker")
	}
	if !vsched.Active() {
		rt := time.NewTicker(d)
		return &Ticker{C: rt.C, real: rt}
	}
	c := make(chan time.Time, 1)
	t := &Ticker{C: c, c: c}
	if vsched.Aborting() {
		return t
	}
	t.h = vsched.AddTimer(d, d, func() {
		select {
		case c <- Now():
		default:
		}
	})
	return t
}

func (t *Ticker) Stop() {
	if t.real != nil {
		t.real.Stop()
		return
	}
	if t.h != nil {
		t.h.Stop()
	}
}

func (t *Ticker) Reset(d time.Duration) {
	if t.real != nil {
		t.real.Reset(d)
		return
	}
	if t.h == nil || vsched.Aborting() {
		return
	}
	t.h.Stop()
	vsched.ResetTimer(t.h, d, d)
}
