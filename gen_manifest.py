#!/usr/bin/env python3
"""Generates /verif/MANIFEST.json from the table below (single source of truth)."""
import json

PROPS = [json.loads(l)["id"] for l in open("/verif/properties.jsonl")]

ENV = "GOFLAGS=-mod=mod GOPROXY=off GOSUMDB=off GOTOOLCHAIN=local"

# id -> dict(engine, category, technique, text, note, design_ref)
CHECKS = {
 "C10": dict(engine="Q", category="model_checking", design_ref="DESIGN.md §3, §6 C10",
   technique="bounded-exhaustive input enumeration against a reference model (explicit enumeration, no sampling)",
   text="Every value of the 8/16-bit widths, the 2^24 low range and every value within 3 of every power of two for 32/64 bit, every byte string of length <= 3 and every string of length 4..10 over {00,01,7f,80,ff}, and every boundary length prefix are run through the real Pack/Unpack/GetNextBlock/EncodedSize and compared with an independently written textbook base-128 codec. Exhaustive within these finite domains, which contain every branch boundary of the code (7-bit groups, width limits, int conversion of lengths).",
   note="Trusted: the 40-line reference codec in h/c10; values outside the enumerated domains (the interior of 7-bit groups above 2^24) are covered only through their boundary neighbours."),
 "C16": dict(engine="Q", category="model_checking", design_ref="DESIGN.md §3, §6 C16",
   technique="explicit-state breadth-first search over operation histories of the real container with state de-duplication, each step compared with a reference byte queue",
   text="Breadth-first search over all operation histories up to depth 4 (quick) / 5 (thorough) from 6 initial containers over an alphabet of 106 operations (every exported data operation with forced-collision arguments: nil/empty/1B/3B data, requested lengths -1,0,1,2,len,len+1,2^62, numbers at the varint and int boundaries up to 2^64-1, partially consumed and prepended argument containers). Every history is replayed on a fresh real container and on a plain []byte queue; every result, Length, HoldsData and the content of a carbon copy are compared after every history; states are de-duplicated on the private representation (offset, compartment length vector) plus content, so all reachable internal layouts within the bound are visited.",
   note="Trusted: the []byte reference model in h/c16 (a negative requested length may be refused or return nothing; GetNextBlock is defined as GetNextN64 followed by Get). Histories longer than the depth bound and data values outside the alphabet are not covered; the container code never branches on payload bytes except through varint decoding, whose boundaries are in the alphabet."),
 "C05": dict(engine="S", category="model_checking", design_ref="DESIGN.md §2, §6 C05",
   technique="stateless model checking of the implementation: deviation-bounded exhaustive enumeration of thread interleavings under a controlled scheduler with virtual time",
   text="The real modules and log packages are compiled from a source-instrumented copy in which every mutex, atomic, abool, channel, select and go operation is a scheduling point of a controlled scheduler that models blocking and virtual time. For ~200 closed drivers ({single module, dependent+dependency, cross-module hook source} x {Shutdown, Disable+ManageModules} x work-item multisets of size <= 2 over worker, service worker, queued task, high/medium/low/signalled microtask, own and cross-module event hook x stop-routine variants) every schedule with at most 2 (thorough 3) deviations from the default scheduler is executed, each from a freshly reset world, and checked: context cancelled before the stop routine runs, the module leaves Stopping / the dependency's stop routine begins / the trigger returns only after the stop routine and all work returned, no waiting out the stop timeout (virtual clock), nothing new runs on the stopped module, no deadlock, no uncontained panic.",
   note="Trusted: the scheduler's model of Go synchronisation (shim/, validated by selftests with known interleaving counts), sequential consistency, data-race freedom outside instrumented operations, RWMutex without writer preference. Preemptions are only placed at synchronisation operations issued by package modules and at harness events (operations inside package log switch threads only when they block); bound = deviations from the deterministic default scheduler (delay bounding). Drivers larger than 2 work items / 3 modules are not covered."),
 "C01": dict(engine="S", category="model_checking", design_ref="DESIGN.md §2, §6 C01",
   technique="stateless model checking of the implementation: deviation-bounded exhaustive enumeration of thread interleavings under a controlled scheduler with virtual time",
   text="For every dependency graph on <= 3 modules, with no fault or exactly one prep/start/stop callback returning an error or panicking, and with module management for every initial enabled set and one further round with every other set (673 closed drivers; history Start [-> ManageModules] -> Shutdown), every schedule of the source-instrumented modules package with at most 2 (3 modules: 1) deviations from the default scheduler is executed from a freshly reset world. Checked in the callbacks and at every return: start only after all dependencies finished starting successfully and are not stopping; stop only after every started dependent completely stopped and is offline; prep once, before any start, after the dependencies' prep; Start/ManageModules == nil implies exactly the wanted set is online; when Shutdown returns (and again once idle) no module is online and stops == successful starts per module; no deadlock, no uncontained panic.",
   note="Trusted: the scheduler's model of Go synchronisation (shim/, selftests), sequential consistency, data-race freedom outside instrumented operations. Operations inside package log are switch points only when they block; map iteration over the module registry is in ascending name order. Graphs with more than 3 modules, more than one fault, and more than two management rounds are not covered."),
}

NOT_BUILT_REASON = "check not built yet (work in progress; planned, see DESIGN.md section 6)"

def main():
    checks = []
    for pid in PROPS:
        if pid not in CHECKS:
            continue
        c = CHECKS[pid]
        checks.append({
            "property_id": pid,
            "quick_cmd": f"./check.sh {pid} --tier quick",
            "thorough_cmd": f"./check.sh {pid} --tier thorough",
            "evidence_file": f"/verif/evidence/{pid}.json",
            "replay_cmd_template": f"./check.sh {pid} --replay {{path}}",
            "engine": c["engine"],
            "level_claimed": {"category": c["category"], "text": c["text"], "design_ref": c["design_ref"]},
            "level_note": c["note"],
            "technique": c["technique"],
        })
    m = {
        "version": 1,
        "setup_cmd": "./setup.sh",
        "hooks": {
            "guard": "verif",
            "enable": "checks build with `go build -tags verif -overlay <generated overlay.json>`: instrumented copies of portbase packages, shim packages and in-package harness files are supplied through the overlay; /repo's tree is not modified and carries no hook commits",
            "baseline_off_cmd": f"cd /repo && {ENV} go test -json -vet=off -count=1 -timeout 25m ./...",
            "source_commits": [],
            "add_only": True,
        },
        "engines": [
            {"name": "Q", "path": "/verif/h, /verif/vlib", "serves_properties": [p for p in PROPS if p in CHECKS and "Q" in CHECKS[p]["engine"]],
             "kind_free_text": "bounded-exhaustive enumeration of inputs / operation histories on the real code, compared step by step with a reference model; BFS with state de-duplication for histories"},
            {"name": "S", "path": "/verif/instr, /verif/shim", "serves_properties": [p for p in PROPS if p in CHECKS and "S" in CHECKS[p]["engine"]],
             "kind_free_text": "stateless preemption-bounded exploration of all interleavings of source-instrumented portbase packages under a controlled scheduler with virtual time"},
            {"name": "K", "path": "/verif/crash", "serves_properties": [p for p in PROPS if p in CHECKS and "K" in CHECKS[p]["engine"]],
             "kind_free_text": "crash-point enumeration: the real writer is killed before every file-system-mutating system call (strace fault injection) and the directory state inspected"},
        ],
        "checks": checks,
        "notes": "All checks rebuild their harness from /repo's working tree on every invocation (check.sh). Exit 0 held / 1 VIOLATION / 2 engine error. known_findings.json lists genuine defects (fixed or recorded).",
        "not_applicable": [{"property_id": p, "reason": NOT_BUILT_REASON} for p in PROPS if p not in CHECKS],
    }
    json.dump(m, open("/verif/MANIFEST.json", "w"), indent=1)

if __name__ == "__main__":
    main()
