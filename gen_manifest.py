#!/usr/bin/env python3
"""Generates /verif/MANIFEST.json from the table below (single source of truth)."""
import json

PROPS = [json.loads(l)["id"] for l in open("/verif/properties.jsonl")]

ENV = "GOFLAGS=-mod=mod GOPROXY=off GOSUMDB=off GOTOOLCHAIN=local"

# id -> dict(engine, category, technique, text, note, design_ref)
CHECKS = {
 "C10": dict(engine="Q", category="model_checking", design_ref="DESIGN.md §3, §6 C10",
   technique="bounded-exhaustive input enumeration against a reference model (explicit enumeration, no sampling)",
   text="Every value of the 8/16-bit widths, the 2^24 low range and every value within 3 of every power of two for 32/64 bit, every byte string of length <= 3 and every string of length 4..10 over {00,01,7f,80,ff}, and every boundary length prefix are run through the real Pack/Unpack/GetNextBlock/EncodedSize and compared with an independently written textbook base-128 codec. Exhaustive within these finite domains, which contain every branch boundary of the code (7-bit groups, width limits, int conversion of lengths).",
   note="Trusted: the 40-line reference codec in h/c10; values outside the enumerated domains (the interior of 7-bit groups above 2^24) are covered only through their boundary neighbours."),
 "C16": dict(engine="Q", category="model_checking", design_ref="DESIGN.md §3, §6 C16",
   technique="explicit-state breadth-first search over operation histories of the real container with state de-duplication, each step compared with a reference byte queue",
   text="Breadth-first search over all operation histories up to depth 4 (quick) / 5 (thorough) from 6 initial containers over an alphabet of 106 operations (every exported data operation with forced-collision arguments: nil/empty/1B/3B data, requested lengths -1,0,1,2,len,len+1,2^62, numbers at the varint and int boundaries up to 2^64-1, partially consumed and prepended argument containers). Every history is replayed on a fresh real container and on a plain []byte queue; every result, Length, HoldsData and the content of a carbon copy are compared after every history; states are de-duplicated on the private representation (offset, compartment length vector) plus content, so all reachable internal layouts within the bound are visited.",
   note="Trusted: the []byte reference model in h/c16 (a negative requested length may be refused or return nothing; GetNextBlock is defined as GetNextN64 followed by Get). Histories longer than the depth bound and data values outside the alphabet are not covered; the container code never branches on payload bytes except through varint decoding, whose boundaries are in the alphabet."),
 "C05": dict(engine="S", category="model_checking", design_ref="DESIGN.md §2, §6 C05",
   technique="stateless model checking of the implementation: deviation-bounded exhaustive enumeration of thread interleavings under a controlled scheduler with virtual time",
   text="The real modules and log packages are compiled from a source-instrumented copy in which every mutex, atomic, abool, channel, select and go operation is a scheduling point of a controlled scheduler that models blocking and virtual time. For ~200 closed drivers ({single module, dependent+dependency, cross-module hook source} x {Shutdown, Disable+ManageModules} x work-item multisets of size <= 2 over worker, service worker, queued task, high/medium/low/signalled microtask, own and cross-module event hook x stop-routine variants) every schedule with at most 2 (thorough 3) deviations from the default scheduler is executed, each from a freshly reset world, and checked: context cancelled before the stop routine runs, the module leaves Stopping / the dependency's stop routine begins / the trigger returns only after the stop routine and all work returned, no waiting out the stop timeout (virtual clock), nothing new runs on the stopped module, no deadlock, no uncontained panic.",
   note="Trusted: the scheduler's model of Go synchronisation (shim/, validated by selftests with known interleaving counts), sequential consistency, data-race freedom outside instrumented operations, RWMutex without writer preference. Preemptions are only placed at synchronisation operations issued by package modules and at harness events (operations inside package log switch threads only when they block); bound = deviations from the deterministic default scheduler (delay bounding). Drivers larger than 2 work items / 3 modules are not covered."),
 "C01": dict(engine="S", category="model_checking", design_ref="DESIGN.md §2, §6 C01",
   technique="stateless model checking of the implementation: deviation-bounded exhaustive enumeration of thread interleavings under a controlled scheduler with virtual time",
   text="For every dependency graph on <= 3 modules, with no fault or exactly one prep/start/stop callback returning an error or panicking, and with module management for every initial enabled set and one further round with every other set (673 closed drivers; history Start [-> ManageModules] -> Shutdown), every schedule of the source-instrumented modules package with at most 2 (3 modules: 1) deviations from the default scheduler is executed from a freshly reset world. Checked in the callbacks and at every return: start only after all dependencies finished starting successfully and are not stopping; stop only after every started dependent completely stopped and is offline; prep once, before any start, after the dependencies' prep; Start/ManageModules == nil implies exactly the wanted set is online; when Shutdown returns (and again once idle) no module is online and stops == successful starts per module; no deadlock, no uncontained panic.",
   note="Trusted: the scheduler's model of Go synchronisation (shim/, selftests), sequential consistency, data-race freedom outside instrumented operations. Operations inside package log are switch points only when they block; map iteration over the module registry is in ascending name order. Graphs with more than 3 modules, more than one fault, and more than two management rounds are not covered."),
 "C08": dict(engine='Q', category='model_checking', design_ref='DESIGN.md §3, §6 C08',
   technique='bounded-exhaustive enumeration of inputs / operation histories on the real code against a reference model (explicit-state, no sampling)',
   text='Every record of an enumerated domain (9,604 / 114,244 metadata tuples over int64 boundary values and both flags x 8-13 payloads x 13 format ids, all 256 format ids on a sub-grid, x 41 typed values of the harness schema) is serialised by the real MarshalRecord, parsed by NewRawWrapper and unwrapped; key, the six metadata fields, format and bytes are compared, deleted records must carry no data, each parsed record is serialised a second time. NewRawWrapper is run on every byte string of length <= 3, every short meta section in every format byte, every boundary block length, and every truncation, substitution, length-field replacement, insertion and deletion of 50 / 160 valid encodings: it must never panic, never return data outside the input, never depend on memory behind the input and never return a record for an over-long block length.',
   note='Bounded: metadata values come from a boundary set, payloads <= 300 bytes, one typed schema. The key is supplied by the caller and is not part of the stored form. The format byte of deleted records is omitted by design and not compared. Third-party decoders are exercised only with short bodies and corruptions of valid metas.'),
 "C09": dict(engine='Q', category='model_checking', design_ref='DESIGN.md §3, §6 C09',
   technique='bounded-exhaustive enumeration of inputs / operation histories on the real code against a reference model (explicit-state, no sampling)',
   text="Bounded-exhaustive on the real dsd code: every schema value with <= 2 (thorough <= 3) fields set x 7 formats x plain/indent/GZIP/AUTO-compressed dump -> Load/DecompressAndLoad returns an equal value and the dumped format (AUTO = default); the same through the HTTP request and response helpers; for every Accept string of <= 2 (<= 3) media-range elements that names a registered type or a wildcard the response is served, Content-Type names an encoding the body decodes in, and the peer's load returns the value; Load/MimeLoad/DecompressAndLoad on all byte strings <= 3 (thorough: all 4-byte strings with a known id), truncations/substitutions of valid dumps and claimed-size headers (in a child process under an address-space limit) return a value or an error without panic or process kill.",
   note="Equality treats nil and empty slices/maps as the same value. The codec libraries are trusted as the reference for 'the body is in encoding X'. Not asserted: which type is chosen for an Accept header; lenient header spellings; integers beyond +-2^53. AUTO, RAW and GenCode may be refused by the HTTP dump functions (no media type). String alphabet is 8 values. No concurrency."),
 "C11": dict(engine='Q', category='model_checking', design_ref='DESIGN.md §3, §6 C11',
   technique='bounded-exhaustive enumeration of inputs / operation histories on the real code against a reference model (explicit-state, no sampling)',
   text='Bounded-exhaustive: every API-built query within the stated shape (all trees of depth <= 2, arity <= 3; thorough depth 3), leaf (294 leaves over all 18 operators and operand classes) and token bounds (all strings of <= 3 symbols over a special-character alphabet in every token slot) that passes Check prints to a text ParseQuery accepts, that re-prints identically, matches the same derived witness records and keeps key/prefix/value tokens exact; every enumerated parser input (all strings of <= 4 tokens over 19 tokens, <= 4 characters over 12 characters, <= 7 condition units) yields a checked query or an error without panic or hang, and every input the README-grammar recogniser accepts is accepted with exact tokens.',
   note="Trusted: the conservative hand-written README recogniser and the flat witness records behind the Accessor interface. Not covered: invalid UTF-8 tokens, trees beyond the bounds, rejection of malformed input. Eight known-finding signatures (three root causes: empty groups, short or comma-containing 'in' lists, keys that are control words or parentheses have no text form) are listed in known_findings.json."),
 "C12": dict(engine='Q', category='model_checking', design_ref='DESIGN.md §3, §6 C12',
   technique='bounded-exhaustive enumeration of inputs / operation histories on the real code against a reference model (explicit-state, no sampling)',
   text='For every requirement pair (81 wrapped handlers over {NotFound, Dynamic, NotSupported, Anyone, User, Admin, Self, 5, -3}^2 plus 180 endpoints), 16 methods, 74 (thorough 142) credential sources and states, 26 origins x 2 hosts, dev mode and the database bridge, and for every history up to depth 5 (thorough 6) of key configuration, session creation, use, expiry, reset and cleaning (BFS with state de-duplication), the real mainHandler.ServeHTTP ran a handler only when the reference decision table permitted it, showed it exactly the granted token, answered refusals with 401/403/404/405/500, refused mismatching Origins before the authenticator or handler ran, and never panicked or hung; header strings of <= 2 (3) tokens over 10-token alphabets for Authorization, Cookie and Origin.',
   note='Sequential only. Time is simulated by back-dating stored expiries through an overlay function (boundaries at +-1 min). The asynchronous config-change delivery is detached and updateAPIKeys is called directly. Multi-credential precedence, debatable header spellings and preflight status are not asserted. Module-readiness 503 and the listening socket are not covered.'),
 "C18": dict(engine='Q+K', category='model_checking', design_ref='DESIGN.md §3, §4, §6 C18',
   technique='bounded-exhaustive enumeration of inputs / operation histories on the real code against a reference model (explicit-state, no sampling); strace system-call audit of the same cases for reads',
   text='For every name built from <= 4 (thorough <= 5) segments over {a, .., ., empty, <root>-other, <root>} with relative, /, absolute-root and absolute-parent prefixes (6,216 / 37,320 names per root), against roots at depth 1-3 in a sandbox with sentinel files at every level: none of the fstree Put/Get/Delete/Query, DirStructure Ensure*, UnpackArchive (name as zip entry), ScanStorage and API-bridge operations changes, hands back, or (under strace -e trace=%file with marker calls, every path resolved through the dirfd annotations) even touches anything outside its root; and every lexically escaping name returns an error.',
   note="Containment is decided lexically; there are no symlinks in the sandbox. The strace read audit covers <= 2-segment names in quick and <= 3 in thorough. renameio's use of os.TempDir() is allowed (TMPDIR is redirected into the sandbox). The check refuses to run if the absolute probe paths (/a, /rt, ...) already exist."),
 "C19": dict(engine='Q', category='model_checking', design_ref='DESIGN.md §3, §6 C19',
   technique='bounded-exhaustive enumeration of inputs / operation histories on the real code against a reference model (explicit-state, no sampling)',
   text='For every set of <= 4 (thorough <= 5) versions from a stable/pre-release/dev alphabet with every available/current/pre-release/blacklisted vector and all 24 registry settings, selectVersion picks exactly the version the documented order prescribes, and a blacklisted one only as last resort. For every history to depth 3 (thorough 4) of AddVersion/Blacklist/GetFile/selectVersion/Purge(keep)/flag toggles from 8 pools on a real storage directory (BFS, de-duplicated on settings, ordered version list with flags, selected, active, files): Blacklist refuses the last non-blacklisted version; GetFile hands out the selected version; after Purge the files of the active, selected and newest stable version and of >= keep further versions exist and no version is listed available without its file. All 1.6M (3.8M) identifier x version pairs of the file-name grammar convert both ways without loss; GetSelectedVersions reports the selections.',
   note="Trusted: the harness's own semver comparison and cascade (~150 lines). A stale SelectedVersion between AddVersion and the next selection is documented behaviour and not asserted. Not covered: the download branch of GetFile, signature verification, resources with an empty version list, concurrency."),
 "C15": dict(engine="S", category="model_checking", design_ref="DESIGN.md §2, §6 C15",
   technique="stateless model checking of the implementation: deviation-bounded exhaustive enumeration of thread interleavings under a controlled scheduler with virtual time",
   text="For concurrency limits 2 and 3 and limit+1 (thorough limit+2) microtasks submitted concurrently from as many threads - every multiset of {medium, low} priority x {Run, Start, Signal} variant, error and panic outcomes, an optional high-priority task, done() called three times (twice concurrently) - every schedule of the source-instrumented modules package with at most 2 (thorough 3) deviations from each of two default schedulers is executed from a freshly reset world. Checked: the number of medium/low bodies between begin and end never exceeds the limit while the virtual clock reads 0 and no high-priority body runs; every body ran exactly once; blocking variants return the body's error (IsPanic for panics); afterwards the global and per-module counts are zero, further microtasks are admitted without the virtual clock moving, and Shutdown is not held up; no deadlock, no uncontained panic.",
   note="Trusted: the scheduler's model of Go synchronisation (shim/, selftests), sequential consistency, data-race freedom outside instrumented operations. Operations inside package log are switch points only when they block. More than limit+2 microtasks, limits above 3 and maximum delays that actually expire are not covered."),
 "C06": dict(engine="S+Q", category="model_checking", design_ref="DESIGN.md §2, §6 C06",
   technique="stateless model checking of the implementation (deviation-bounded enumeration of interleavings under a controlled scheduler) plus exhaustive enumeration of the (execution kind x panic value) table",
   text="The complete table of 15 kinds of managed execution (prep/start/stop routines, RunWorker, StartWorker, StartServiceWorker, task via Queue and via Schedule, Run/Start x high/medium/low microtasks, event hook) x 7 panic values (nil, error, string, index out of range, nil-map write, struct, typed-nil error whose Error() panics) is executed on the source-instrumented modules package under the controlled scheduler; in addition, for every kind, the panicking item runs among 1-2 healthy items (worker, microtask, task) and a second module, with every schedule within 2 (thorough 3) deviations, followed by stopping the module. Checked: no panic leaves a managed thread; blocking variants return an error with IsPanic, the value and a stack trace; the same error arrives on the error reporting channel; Start/Shutdown return non-nil when a lifecycle routine panicked (also when another module reports after it); module and global counters return to their previous values; the service worker is re-entered after the virtual back-off; the panicked task runs again; Shutdown stays prompt and all healthy items end.",
   note="Trusted: the scheduler's model of Go synchronisation (shim/, selftests), sequential consistency, data-race freedom outside instrumented operations. The HTTP API handler clause is covered by the sequential api part (h/c06api) when present in this tree."),
}

NOT_BUILT_REASON = "check not built yet (work in progress; planned, see DESIGN.md section 6)"

def main():
    checks = []
    for pid in PROPS:
        if pid not in CHECKS:
            continue
        c = CHECKS[pid]
        checks.append({
            "property_id": pid,
            "quick_cmd": f"./check.sh {pid} --tier quick",
            "thorough_cmd": f"./check.sh {pid} --tier thorough",
            "evidence_file": f"/verif/evidence/{pid}.json",
            "replay_cmd_template": f"./check.sh {pid} --replay {{path}}",
            "engine": c["engine"],
            "level_claimed": {"category": c["category"], "text": c["text"], "design_ref": c["design_ref"]},
            "level_note": c["note"],
            "technique": c["technique"],
        })
    m = {
        "version": 1,
        "setup_cmd": "./setup.sh",
        "hooks": {
            "guard": "verif",
            "enable": "checks build with `go build -tags verif -overlay <generated overlay.json>`: instrumented copies of portbase packages, shim packages and in-package harness files are supplied through the overlay; /repo's tree is not modified and carries no hook commits",
            "baseline_off_cmd": f"cd /repo && {ENV} go test -json -vet=off -count=1 -timeout 25m ./...",
            "source_commits": [],
            "add_only": True,
        },
        "engines": [
            {"name": "Q", "path": "/verif/h, /verif/vlib", "serves_properties": [p for p in PROPS if p in CHECKS and "Q" in CHECKS[p]["engine"]],
             "kind_free_text": "bounded-exhaustive enumeration of inputs / operation histories on the real code, compared step by step with a reference model; BFS with state de-duplication for histories"},
            {"name": "S", "path": "/verif/instr, /verif/shim", "serves_properties": [p for p in PROPS if p in CHECKS and "S" in CHECKS[p]["engine"]],
             "kind_free_text": "stateless preemption-bounded exploration of all interleavings of source-instrumented portbase packages under a controlled scheduler with virtual time"},
            {"name": "K", "path": "/verif/crash", "serves_properties": [p for p in PROPS if p in CHECKS and "K" in CHECKS[p]["engine"]],
             "kind_free_text": "crash-point enumeration: the real writer is killed before every file-system-mutating system call (strace fault injection) and the directory state inspected"},
        ],
        "checks": checks,
        "notes": "All checks rebuild their harness from /repo's working tree on every invocation (check.sh). Exit 0 held / 1 VIOLATION / 2 engine error. known_findings.json lists genuine defects (fixed or recorded).",
        "not_applicable": [{"property_id": p, "reason": NOT_BUILT_REASON} for p in PROPS if p not in CHECKS],
    }
    json.dump(m, open("/verif/MANIFEST.json", "w"), indent=1)

if __name__ == "__main__":
    main()
